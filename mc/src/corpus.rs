//! Frame corpus for the stream-level checks (C09, C10, C12, C13).

#![allow(dead_code)]

use crate::wire::{op, Req};

#[derive(Clone, Debug)]
pub struct Frame {
    pub name: String,
    pub req: Req,
    /// well-formed per the protocol description (anomalous frames are accepted by the decoder today
    /// or must be rejected by closing the connection)
    pub well_formed: bool,
}

impl Frame {
    pub fn bytes(&self) -> Vec<u8> {
        self.req.bytes()
    }
}

fn f(name: &str, req: Req, wf: bool) -> Frame {
    Frame { name: name.to_string(), req, well_formed: wf }
}

/// One well-formed frame per opcode 0x00..0x24 (the two undefined values 0x1b and 0x1f included,
/// marked not well-formed).  `k` is the key used; opaque is set by the caller.
pub fn well_formed(k: &[u8]) -> Vec<Frame> {
    let mut v = vec![];
    let e4 = 10u32.to_be_bytes();
    v.push(f("get", Req::get(op::GET, k), true));
    v.push(f("set", Req::store(op::SET, k, b"5", 0xdeadbeef, 0, 0), true));
    v.push(f("add", Req::store(op::ADD, k, b"7", 1, 0, 0), true));
    v.push(f("replace", Req::store(op::REPLACE, k, b"9", 2, 0, 0), true));
    v.push(f("delete", Req::delete(op::DELETE, k, 0), true));
    v.push(f("incr", Req::delta(op::INCR, k, 1, 40, 0, 0), true));
    v.push(f("decr", Req::delta(op::DECR, k, 1, 40, 0, 0), true));
    v.push(f("quit", Req::bare(op::QUIT), true));
    v.push(f("flush", Req::flush(op::FLUSH, None), true));
    v.push(f("flush+delay", Req::flush(op::FLUSH, Some(5)), true));
    v.push(f("getq", Req::get(op::GETQ, k), true));
    v.push(f("noop", Req::bare(op::NOOP), true));
    v.push(f("version", Req::bare(op::VERSION), true));
    v.push(f("getk", Req::get(op::GETK, k), true));
    v.push(f("getkq", Req::get(op::GETKQ, k), true));
    v.push(f("append", Req::concat(op::APPEND, k, b"1", 0), true));
    v.push(f("prepend", Req::concat(op::PREPEND, k, b"2", 0), true));
    v.push(f("stat", Req::bare(op::STAT), true));
    v.push(f("setq", Req::store(op::SETQ, k, b"6", 3, 0, 0), true));
    v.push(f("addq", Req::store(op::ADDQ, k, b"8", 4, 0, 0), true));
    v.push(f("replaceq", Req::store(op::REPLACEQ, k, b"3", 5, 0, 0), true));
    v.push(f("deleteq", Req::delete(op::DELETEQ, k, 0), true));
    v.push(f("incrq", Req::delta(op::INCRQ, k, 2, 50, 0, 0), true));
    v.push(f("decrq", Req::delta(op::DECRQ, k, 2, 50, 0, 0), true));
    v.push(f("quitq", Req::bare(op::QUITQ), true));
    v.push(f("flushq", Req::flush(op::FLUSHQ, None), true));
    v.push(f("appendq", Req::concat(op::APPENDQ, k, b"4", 0), true));
    v.push(f("prependq", Req::concat(op::PREPENDQ, k, b"0", 0), true));
    v.push(f("op0x1b", Req::bare(0x1b), false));
    v.push(f("touch", Req::new(op::TOUCH).key(k).extras(&e4), true));
    v.push(f("gat", Req::new(op::GAT).key(k).extras(&e4), true));
    v.push(f("gatq", Req::new(op::GATQ).key(k).extras(&e4), true));
    v.push(f("op0x1f", Req::bare(0x1f), false));
    v.push(f("sasl_list", Req::bare(op::SASL_LIST), true));
    v.push(f("sasl_auth", Req::new(op::SASL_AUTH).key(b"PLAIN").value(b"\0user\0pass"), true));
    v.push(f("sasl_step", Req::new(op::SASL_STEP).key(b"PLAIN").value(b"x"), true));
    v.push(f("gatk", Req::new(op::GATK).key(k).extras(&e4), true));
    v.push(f("gatkq", Req::new(op::GATKQ).key(k).extras(&e4), true));
    v
}

/// Frames with unexpected extras / value / extras lengths that the header validation lets through.
pub fn anomalous(k: &[u8], item_limit: u32) -> Vec<Frame> {
    let mut v = vec![];
    let e4 = [0xaa, 0xbb, 0xcc, 0xdd];
    let e8 = [1u8, 2, 3, 4, 5, 6, 7, 8];
    v.push(f("get+extras4", Req::get(op::GET, k).extras(&e4), false));
    v.push(f("get+value", Req::get(op::GET, k).value(b"junk"), false));
    v.push(f("getkq+value", Req::get(op::GETKQ, k).value(b"junk"), false));
    v.push(f("delete+extras4", Req::delete(op::DELETE, k, 0).extras(&e4), false));
    v.push(f("delete+value", Req::delete(op::DELETE, k, 0).value(b"junk"), false));
    v.push(f("append+extras4", Req::concat(op::APPEND, k, b"zz", 0).extras(&e4), false));
    v.push(f("noop+value", Req::bare(op::NOOP).value(b"junk"), false));
    v.push(f("noop+key", Req::bare(op::NOOP).key(k), false));
    v.push(f("version+value", Req::bare(op::VERSION).value(b"junkjunk"), false));
    v.push(f("stat+key", Req::bare(op::STAT).key(b"items"), false));
    v.push(f("flush+extras8", Req::bare(op::FLUSH).extras(&e8), false));
    v.push(f("flush+value", Req::bare(op::FLUSH).value(b"junk"), false));
    v.push(f("set+extras0", Req::new(op::SET).key(k).value(b"valuevalue"), false));
    v.push(f("set+extras4", Req::new(op::SET).key(k).value(b"valuevalue").extras(&e4), false));
    v.push(f("set+extras12", Req::new(op::SET).key(k).value(b"v").extras(&[0u8; 12]), false));
    v.push(f("incr+extras0", Req::new(op::INCR).key(k), false));
    v.push(f("incr+extras8", Req::new(op::INCR).key(k).extras(&e8), false));
    v.push(f("incr+value", Req::delta(op::INCR, k, 1, 1, 0, 0).value(b"junk"), false));
    v.push(f("touch+value", Req::new(op::TOUCH).key(k).extras(&e4).value(b"junkjunkjunk"), false));
    let big = vec![b'B'; item_limit as usize + 1];
    v.push(f("set-oversized", Req::store(op::SET, k, &big, 0, 0, 0), true));
    v
}

/// Every single cut point.
pub fn one_cuts(len: usize) -> Vec<Vec<usize>> {
    (1..len).map(|c| vec![c]).collect()
}

/// Every pair of cut points.
pub fn two_cuts(len: usize) -> Vec<Vec<usize>> {
    let mut v = vec![];
    for a in 1..len {
        for b in (a + 1)..len {
            v.push(vec![a, b]);
        }
    }
    v
}

pub fn bytewise(len: usize) -> Vec<usize> {
    (1..len).collect()
}

pub fn split<'a>(bytes: &'a [u8], cuts: &[usize]) -> Vec<&'a [u8]> {
    let mut out = vec![];
    let mut p = 0;
    for c in cuts {
        out.push(&bytes[p..*c]);
        p = *c;
    }
    out.push(&bytes[p..]);
    out
}
