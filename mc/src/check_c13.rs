//! C13: oversized requests are refused (0x03) and skipped cleanly, for every opcode, position in
//! the pipeline, and split of the oversized body between the first read and later reads.

use crate::check_c09::par_map;
use crate::net::{self, NetCfg};
use crate::props::Tier;
use crate::report::{CheckOutcome, Violation};
use crate::sut::{Policy, SutCfg, World};
use crate::wire::{self, op, st, Req};
use serde_json::json;
use std::collections::BTreeMap;
use std::time::Instant;

#[derive(Clone, Debug)]
struct Case {
    limit: u32,
    body_len: u32,
    opcode: u8,
    /// 0 = first, 1 = middle, 2 = last
    position: u8,
    /// bytes of the oversized body delivered in the same chunk as its header (u32::MAX = all of
    /// it plus the following requests)
    b: u32,
    pregrown: bool,
    /// header shape of the oversized request: 0 = 3-byte key; 1 = 251-byte key; 2 = 21 extras bytes
    /// announced; 3 = 65535-byte key (all consistent with the announced body length)
    shape: u8,
}

impl Case {
    fn b_class(&self) -> &'static str {
        let l = self.body_len;
        if self.b == u32::MAX {
            "B>L(all+next)"
        } else if self.b == l {
            "B=L"
        } else if self.b as u64 * 2 > l as u64 {
            "L/2<B<L"
        } else if self.b == 0 {
            "B=0"
        } else {
            "0<B<=L/2"
        }
    }
    fn name(&self) -> String {
        format!(
            "limit={} L={} op={} pos={} B={} pregrown={}{}",
            self.limit,
            self.body_len,
            wire::op_name(self.opcode),
            ["first", "middle", "last"][self.position as usize],
            if self.b == u32::MAX { "all+next".to_string() } else { self.b.to_string() },
            self.pregrown,
            ["", " key=251B", " extras=21B", " key=65535B"][self.shape as usize]
        )
    }
}

fn oversized_req(c: &Case) -> Req {
    // a header that announces body_len; the bytes carried are key "big" + filler
    let mut r = Req::new(c.opcode).opaque(0x0b16_0001);
    r.key = b"big".to_vec();
    match c.opcode {
        op::SET | op::ADD | op::REPLACE | op::SETQ | op::ADDQ | op::REPLACEQ => r.extras = vec![0, 0, 0, 1, 0, 0, 0, 0],
        op::INCR | op::DECR | op::INCRQ | op::DECRQ => r.extras = vec![0u8; 20],
        _ => {}
    }
    match c.shape {
        1 => r.key = vec![b'K'; 251],
        2 => r.extras = vec![0u8; 21],
        3 if c.body_len as usize > 65535 + r.extras.len() => r.key = vec![b'K'; 65535],
        _ => {}
    }
    let fixed = r.extras.len() + r.key.len();
    r.value = vec![0x5a; (c.body_len as usize).saturating_sub(fixed)];
    r
}

fn prefix_reqs() -> Vec<Req> {
    vec![
        Req::store(op::SET, b"a", b"1", 1, 0, 0).opaque(0xa1),
        Req::get(op::GET, b"a").opaque(0xa2),
    ]
}
fn suffix_reqs() -> Vec<Req> {
    vec![
        Req::bare(op::NOOP).opaque(0xb1),
        Req::store(op::SET, b"z", b"2", 2, 0, 0).opaque(0xb2),
        Req::get(op::GET, b"z").opaque(0xb3),
        Req::get(op::GET, b"big").opaque(0xb4),
    ]
}

struct Res {
    viol: Option<(String, String)>,
    chunks: u64,
}

fn run_case(c: &Case) -> Result<Res, String> {
    let big = oversized_req(c);
    let big_bytes = big.bytes();
    let (pre, post): (Vec<Req>, Vec<Req>) = match c.position {
        0 => (vec![], suffix_reqs()),
        1 => (prefix_reqs(), suffix_reqs()),
        _ => (prefix_reqs(), vec![]),
    };
    let grow = Req::store(op::SET, b"g", &vec![b'g'; c.limit as usize - 8 - 1], 0, 0, 0).opaque(0x99);
    // ---- reference: the same stream without the oversized request, in-process ----
    let world = World::new(SutCfg { item_limit: c.limit, policy: Policy::None });
    let mut conn = world.conn();
    let mut exp_other: Vec<u8> = vec![];
    // the key the oversized request names already holds an item: a refused request changes nothing
    let old_item = Req::store(op::SET, b"big", b"old-value", 0x01d, 0, 0).opaque(0x98);
    conn.exec(&old_item.bytes());
    if c.pregrown {
        conn.exec(&grow.bytes());
    }
    let mut exp_pre: Vec<u8> = vec![];
    for r in &pre {
        exp_pre.extend(conn.exec(&r.bytes()).out);
    }
    for r in &post {
        exp_other.extend(conn.exec(&r.bytes()).out);
    }
    let exp_dump: Vec<(Vec<u8>, Vec<u8>)> = world.dump().into_iter().map(|d| (d.key, d.value)).collect();
    // ---- the real thing ----
    let w = net::NetWorld::new(NetCfg { item_limit: c.limit, ..Default::default() })?;
    {
        let mut p = w.connect()?;
        p.step(&w, &old_item.bytes())?;
        p.close(&w);
    }
    let mut cl = w.connect()?;
    let mut chunks = 0u64;
    if c.pregrown {
        cl.step(&w, &grow.bytes())?;
        cl.got.clear();
        chunks += 1;
    }
    let mut first: Vec<u8> = vec![];
    for r in &pre {
        first.extend(r.bytes());
    }
    let mut rest: Vec<u8> = vec![];
    let body = &big_bytes[24..];
    first.extend_from_slice(&big_bytes[..24]);
    if c.b == u32::MAX {
        first.extend_from_slice(body);
        for r in &post {
            first.extend(r.bytes());
        }
    } else {
        let b = (c.b as usize).min(body.len());
        first.extend_from_slice(&body[..b]);
        rest.extend_from_slice(&body[b..]);
        for r in &post {
            rest.extend(r.bytes());
        }
    }
    let _ = cl.step(&w, &first);
    chunks += 1;
    if !rest.is_empty() {
        let _ = cl.step(&w, &rest);
        chunks += 1;
    }
    w.settle();
    cl.pump();
    let dump: Vec<(Vec<u8>, Vec<u8>)> = w.dump().into_iter().map(|d| (d.key, d.value)).collect();
    // ---- oracle ----
    let (resps, residue) = wire::split_responses(&cl.got);
    let (pre_r, _) = wire::split_responses(&exp_pre);
    let (post_r, _) = wire::split_responses(&exp_other);
    let mut problem: Option<String> = None;
    let oversized = c.body_len > c.limit;
    let mut expected_n = pre_r.len() + post_r.len() + 1;
    if !oversized && wire::is_quiet(c.opcode) {
        expected_n -= 1; // a quiet store within the limit succeeds silently
    }
    if residue != 0 {
        problem = Some(format!("{} stray bytes after the last complete response", residue));
    } else if resps.len() != expected_n {
        problem = Some(format!(
            "{} responses, expected {} ({}){}",
            resps.len(),
            expected_n,
            resps.iter().map(|r| format!("{}:{:#x}", wire::op_name(r.opcode), r.status)).collect::<Vec<_>>().join(" "),
            if cl.eof { "; connection closed by the server" } else { "" }
        ));
    } else {
        for (i, e) in pre_r.iter().enumerate() {
            if &resps[i] != e {
                problem = Some(format!("request before the oversized one answered {} expected {}", resps[i].short(), e.short()));
            }
        }
        let mut idx = pre_r.len();
        if oversized || !wire::is_quiet(c.opcode) {
            let r = &resps[idx];
            idx += 1;
            if oversized {
                if r.status != st::TOO_LARGE || r.opcode != c.opcode || r.opaque != big.opaque {
                    problem = Some(format!("oversized request answered {} - expected status 0x03 with opcode and opaque echoed", r.short()));
                }
            } else if r.status == st::TOO_LARGE {
                problem = Some(format!("request within the limit ({} <= {}) refused as too large", c.body_len, c.limit));
            }
        }
        if problem.is_none() {
            for (j, e) in post_r.iter().enumerate() {
                let got = &resps[idx + j];
                // the follower `get big` sees the big item when the request was within the limit
                if e.opaque == 0xb4 && !oversized {
                    continue;
                }
                let same = got.opcode == e.opcode && got.status == e.status && got.opaque == e.opaque && got.body == e.body;
                if !same {
                    problem = Some(format!("request after the oversized one answered {} expected {}", got.short(), e.short()));
                    break;
                }
            }
        }
    }
    if problem.is_none() && oversized {
        let mut d = dump.clone();
        d.retain(|(k, _)| k != b"g");
        let mut e = exp_dump.clone();
        e.retain(|(k, _)| k != b"g");
        if d != e {
            problem = Some(format!(
                "store content differs from a run without the oversized request: {:?}",
                d.iter().map(|(k, v)| format!("{}={}", wire::show(k), wire::show(v))).collect::<Vec<_>>()
            ));
        }
    }
    if problem.is_none() && !w.server_alive() {
        problem = Some("server task ended".into());
    }
    let viol = problem.map(|p| {
        let clause = if oversized { "oversized-skip" } else { "within-limit-refused" };
        (format!("{}|{}|{}", clause, if c.pregrown { "buffer-pregrown" } else { "buffer-4096" }, c.b_class()), format!("{}: {}", c.name(), p))
    });
    Ok(Res { viol, chunks })
}

/// A request of any opcode whose body is well within the limit, delivered whole or header first:
/// whatever the server makes of it (answer, error, close), it must not refuse it for its size.
fn run_within_any(limit: u32, opcode: u8, split: u8) -> Result<Option<(String, String)>, String> {
    let c = Case { limit, body_len: 0, opcode, position: 0, b: 0, pregrown: false, shape: 0 };
    let mut r = oversized_req(&c);
    r.value = b"tiny".to_vec();
    let bytes = r.bytes();
    let w = net::NetWorld::new(NetCfg { item_limit: limit, ..Default::default() })?;
    let mut cl = w.connect()?;
    match split {
        0 => {
            let _ = cl.step(&w, &bytes);
        }
        1 => {
            let _ = cl.step(&w, &bytes[..24]);
            let _ = cl.step(&w, &bytes[24..]);
        }
        _ => {
            let _ = cl.step(&w, &bytes[..bytes.len() - 1]);
            let _ = cl.step(&w, &bytes[bytes.len() - 1..]);
        }
    }
    w.settle();
    cl.pump();
    let (resps, _) = wire::split_responses(&cl.got);
    if let Some(bad) = resps.iter().find(|x| x.status == st::TOO_LARGE) {
        return Ok(Some((
            format!("within-limit-refused|any-opcode|{}", ["whole", "header-first", "last-byte-late"][split as usize]),
            format!(
                "limit={} op={} body of {} bytes delivered {}: answered {} - a request within the limit must never be refused for size",
                limit,
                wire::op_name(opcode),
                bytes.len() - 24,
                ["whole", "header first, body later", "all but the last byte first"][split as usize],
                bad.short()
            ),
        )));
    }
    Ok(None)
}

/// Small requests of every opcode on a key that already holds an item - short text, a 21- and a
/// 40-character zero-padded number, 30 bytes of text, a value of half the limit: whatever the
/// command answers, it is never 'too large' (the request is tiny and the result stays within the
/// limit).
fn run_small_on_stored(limit: u32, opcode: u8, stored: &[u8]) -> Result<Option<(String, String)>, String> {
    let c = Case { limit, body_len: 0, opcode, position: 0, b: 0, pregrown: false, shape: 0 };
    let mut r = oversized_req(&c);
    r.value = if matches!(opcode, op::SET | op::SETQ | op::ADD | op::ADDQ | op::REPLACE | op::REPLACEQ | op::APPEND | op::APPENDQ | op::PREPEND | op::PREPENDQ) { b"tiny".to_vec() } else { vec![] };
    let key = r.key.clone();
    if key.is_empty() {
        return Ok(None);
    }
    let w = net::NetWorld::new(NetCfg { item_limit: limit, ..Default::default() })?;
    let mut cl = w.connect()?;
    cl.step(&w, &Req::store(op::SET, &key, stored, 5, 0, 0).opaque(1).bytes())?;
    cl.got.clear();
    let _ = cl.step(&w, &r.bytes());
    let _ = cl.step(&w, &Req::bare(op::NOOP).opaque(2).bytes());
    let (resps, _) = wire::split_responses(&cl.got);
    if let Some(bad) = resps.iter().find(|x| x.status == st::TOO_LARGE) {
        return Ok(Some((
            "within-limit-refused|small-request-on-stored-item".to_string(),
            format!(
                "limit={} op={} on a key holding {} bytes ({}): answered {} - a request within the limit must never be refused for size",
                limit,
                wire::op_name(opcode),
                stored.len(),
                wire::show(&stored[..stored.len().min(24)]),
                bad.short()
            ),
        )));
    }
    Ok(None)
}

/// A slow but steady upload of an oversized body whose bytes are themselves well-formed requests
/// (a store of the key "evil", then noops): header, extras and key first, then the body in pieces of
/// whole frames, `gap` seconds of virtual time apart, the whole upload lasting longer than the idle
/// timeout while no single pause does.  Whatever the server does with such a client - drop it when
/// the timeout strikes, or hold on and answer 0x03 at the end - the body of a refused request is
/// never executed: no embedded request is answered, and "evil" is never stored.
fn run_paced_frames(limit: u32, opcode: u8, gap: u64) -> Result<Option<(String, String)>, String> {
    let evil = Req::store(op::SET, b"evil", b"x", 0xe1, 0, 0).opaque(0xe11).bytes();
    let noop = Req::bare(op::NOOP).opaque(0xe12).bytes();
    let c = Case { limit, body_len: 0, opcode, position: 0, b: 0, pregrown: false, shape: 0 };
    let mut r = oversized_req(&c);
    r.value.clear();
    // pieces of whole frames; the first frame of every piece is the store
    let per_piece = 12usize;
    let n_pieces = (limit as usize / (per_piece * noop.len())) + 4;
    let mut pieces: Vec<Vec<u8>> = vec![];
    for _ in 0..n_pieces {
        let mut pc = evil.clone();
        for _ in 0..per_piece {
            pc.extend_from_slice(&noop);
        }
        pieces.push(pc);
    }
    for pc in &pieces {
        r.value.extend_from_slice(pc);
    }
    let bytes = r.bytes();
    let head_len = bytes.len() - r.value.len();
    let w = net::NetWorld::new(NetCfg { item_limit: limit, ..Default::default() })?;
    let mut cl = w.connect()?;
    let _ = cl.step(&w, &bytes[..head_len]);
    for pc in &pieces {
        w.advance(gap);
        if cl.step(&w, pc).is_err() {
            break;
        }
    }
    let _ = cl.step(&w, &Req::bare(op::NOOP).opaque(0xf00d).bytes());
    w.settle();
    cl.pump();
    let (resps, _) = wire::split_responses(&cl.got);
    let stored_evil = w.dump().iter().any(|d| d.key == b"evil");
    let answered: Vec<String> = resps.iter().filter(|x| x.opaque == 0xe11 || x.opaque == 0xe12).map(|x| x.short()).collect();
    if stored_evil || !answered.is_empty() {
        return Ok(Some((
            "oversized-skip|paced-upload-of-well-formed-frames".to_string(),
            format!(
                "limit={} op={} body of {} bytes made of well-formed requests, uploaded in {} pieces {} s apart (idle timeout 60 s): {} embedded requests were answered ({}){} - the body of a refused request must be discarded, never executed",
                limit,
                wire::op_name(opcode),
                r.value.len(),
                pieces.len(),
                gap,
                answered.len(),
                answered.iter().take(3).cloned().collect::<Vec<_>>().join(" "),
                if stored_evil { "; the key \"evil\" carried inside the body is now stored" } else { "" }
            ),
        )));
    }
    Ok(None)
}

/// Two clients discard oversized bodies at the same time: A has sent its header and part of the
/// body and pauses; B sends a whole oversized request (header first, body later) and a follower
/// and must be answered while A is still in the middle of its body; then A finishes.
fn run_two_clients(limit: u32, opcode: u8, b_split: u8) -> Result<Option<(String, String)>, String> {
    let mk = |opq: u32| {
        let c = Case { limit, body_len: limit + 5000, opcode, position: 0, b: 0, pregrown: false, shape: 0 };
        let mut r = oversized_req(&c);
        r.opaque = opq;
        r.bytes()
    };
    let (abytes, bbytes) = (mk(0xaa01), mk(0xbb01));
    let w = net::NetWorld::new(NetCfg { item_limit: limit, ..Default::default() })?;
    let mut a = w.connect()?;
    let mut b = w.connect()?;
    let _ = a.step(&w, &abytes[..24 + 1000]);
    match b_split {
        0 => {
            let _ = b.step(&w, &bbytes[..24]);
            let _ = b.step(&w, &bbytes[24..]);
        }
        _ => {
            let _ = b.step(&w, &bbytes[..24 + 2000]);
            let _ = b.step(&w, &bbytes[24 + 2000..]);
        }
    }
    let _ = b.step(&w, &Req::bare(op::NOOP).opaque(0xbb02).bytes());
    w.settle();
    b.pump();
    let name = format!("limit={} op={} client B's body delivered {}", limit, wire::op_name(opcode), if b_split == 0 { "after its header" } else { "in two parts" });
    let (rb, _) = wire::split_responses(&b.got);
    let ok_b = rb.len() == 2 && rb[0].status == st::TOO_LARGE && rb[0].opaque == 0xbb01 && rb[1].opcode == op::NOOP && rb[1].opaque == 0xbb02;
    if !ok_b {
        return Ok(Some((
            "oversized-skip|two-clients|second-client-held-up".into(),
            format!(
                "{}: while client A pauses in the middle of its own oversized body, client B's oversized request + noop were answered {:?}, expected 0x03 and the noop",
                name,
                rb.iter().map(|r| r.short()).collect::<Vec<_>>()
            ),
        )));
    }
    let _ = a.step(&w, &abytes[24 + 1000..]);
    let _ = a.step(&w, &Req::bare(op::NOOP).opaque(0xaa02).bytes());
    w.settle();
    a.pump();
    let (ra, _) = wire::split_responses(&a.got);
    let ok_a = ra.len() == 2 && ra[0].status == st::TOO_LARGE && ra[0].opaque == 0xaa01 && ra[1].opcode == op::NOOP && ra[1].opaque == 0xaa02;
    if !ok_a {
        return Ok(Some((
            "oversized-skip|two-clients|first-client".into(),
            format!("{}: client A, finishing its body after B was served, was answered {:?}", name, ra.iter().map(|r| r.short()).collect::<Vec<_>>()),
        )));
    }
    Ok(None)
}

/// A limit above the default: an item just under 1 MiB (and one of 2 MiB) grown by a small append /
/// prepend stays far below the configured limit and must not be refused for size.
fn run_concat_under_big_limit(limit: u32, stored: usize, opcode: u8) -> Result<Option<(String, String)>, String> {
    let w = net::NetWorld::new(NetCfg { item_limit: limit, ..Default::default() })?;
    let mut c = w.connect()?;
    let value = vec![b'v'; stored];
    c.step(&w, &Req::store(op::SET, b"grow", &value, 3, 0, 0).opaque(1).bytes())?;
    let r0 = wire::split_responses(&c.got).0;
    if r0.first().map(|r| r.status) != Some(st::OK) {
        return Ok(Some((
            "within-limit-refused|large-item".into(),
            format!("limit={} set of a {}-byte value answered {:?}", limit, stored, r0.first().map(|r| r.short())),
        )));
    }
    c.got.clear();
    c.step(&w, &Req::concat(opcode, b"grow", &vec![b'+'; 200], 0).opaque(2).bytes())?;
    let r1 = wire::split_responses(&c.got).0;
    let quiet = wire::is_quiet(opcode);
    let refused = r1.iter().any(|r| r.status == st::TOO_LARGE);
    let ok = if quiet { r1.is_empty() } else { r1.len() == 1 && r1[0].status == st::OK };
    if refused || !ok {
        return Ok(Some((
            "within-limit-refused|concat-on-large-item".into(),
            format!(
                "limit={} item of {} bytes, {} of 200 bytes (result {} bytes, within the limit) answered {:?}",
                limit,
                stored,
                wire::op_name(opcode),
                stored + 200,
                r1.iter().map(|r| r.short()).collect::<Vec<_>>()
            ),
        )));
    }
    Ok(None)
}

pub fn check(tier: Tier, threads: usize) -> CheckOutcome {
    let t0 = Instant::now();
    let limits: Vec<u32> = if tier == Tier::Quick { vec![1024, 4096, 65536] } else { vec![1024, 4096, 65536, 1 << 20, 4 << 20] };
    let all_ops: Vec<u8> = (0u8..=0x24).filter(|o| *o != 0x1b && *o != 0x1f).collect();
    let few_ops: Vec<u8> = vec![op::SET, op::GET, op::NOOP, op::INCR, op::APPEND, op::SETQ, op::TOUCH, op::QUIT, op::QUITQ];
    let store_ops: Vec<u8> = vec![op::SET, op::ADD, op::REPLACE, op::SETQ];
    let mut cases: Vec<Case> = vec![];
    for &limit in &limits {
        let big_limit = limit > 4096;
        let ops = if big_limit { &few_ops } else { &all_ops };
        let mut lens = vec![limit + 1, 2 * limit];
        if tier == Tier::Thorough || limit <= 4096 {
            lens.push(limit + 200_000);
        }
        for &l in &lens {
            for &opc in ops.iter() {
                for position in 0..3u8 {
                    for pregrown in [false, true] {
                        let half = (l + 1) / 2;
                        let mut bs = vec![0, 1, half - 1, half, half + 1, l - 1, l, u32::MAX];
                        bs.dedup();
                        for b in bs {
                            // without a grown buffer the server's first read takes at most 4096 bytes
                            let reachable = pregrown || (b != u32::MAX && b <= 4096 - 24 - 100) || l + 24 + 200 < 4096;
                            if !reachable && b != 0 && b != 1 {
                                continue;
                            }

                            cases.push(Case { limit, body_len: l, opcode: opc, position, b, pregrown, shape: 0 });
                        }
                    }
                }
            }
            // unusual but consistent key / extras lengths in the oversized header: the size decides
            for shape in 1..=3u8 {
                for &opc in few_ops.iter() {
                    for position in 0..3u8 {
                        for (b, pregrown) in [(0u32, false), (1, false), (l, true), (u32::MAX, true)] {
                            cases.push(Case { limit, body_len: l, opcode: opc, position, b, pregrown, shape });
                        }
                    }
                }
            }
        }
        // within the limit: never refused for size
        for &l in &[limit - 1, limit] {
            for &opc in &store_ops {
                for position in [0u8, 1] {
                    for b in [0u32, l / 2, u32::MAX] {
                        cases.push(Case { limit, body_len: l, opcode: opc, position, b, pregrown: false, shape: 0 });
                    }
                }
            }
        }
    }
    crate::watchdog::working_on("C13 scenario grid".into());
    let results = par_map(&cases, threads, |_, c| run_case(c));
    let mut found: BTreeMap<String, Violation> = BTreeMap::new();
    let mut mach = None;
    let mut chunks = 0u64;
    let mut failing = 0u64;
    // every opcode 0..=0x24 within the limit, three delivery patterns
    let mut within: Vec<(u32, u8, u8)> = vec![];
    for &limit in &[1024u32, 65536] {
        for opc in 0u8..=0x24 {
            for split in 0..3u8 {
                within.push((limit, opc, split));
            }
        }
    }
    // two clients in the middle of oversized bodies at once
    let mut two: Vec<(u32, u8, u8)> = vec![];
    for &limit in &[1024u32, 65536] {
        for opc in [op::SET, op::GET, op::APPEND, op::SETQ, op::TOUCH] {
            for sp in 0..2u8 {
                two.push((limit, opc, sp));
            }
        }
    }
    let tres = par_map(&two, threads, |_, (l, o, sp)| run_two_clients(*l, *o, *sp));
    for ((l, o, sp), r) in two.iter().zip(tres.iter()) {
        chunks += 6;
        match r {
            Err(e) => mach = Some(format!("two clients op {:#x}: {}", o, e)),
            Ok(Some((sig, what))) => {
                failing += 1;
                found.entry(sig.clone()).or_insert(Violation {
                    signature: sig.clone(),
                    what: what.clone(),
                    replay: json!({"engine": "c13", "case": what, "two_clients": true, "limit": l, "opcode": o, "split": sp}),
                });
            }
            Ok(None) => {}
        }
    }
    // slow, steady uploads of oversized bodies made of well-formed requests, across the idle timeout
    let mut paced: Vec<(u32, u8, u64)> = vec![];
    for &limit in &[1024u32, 4096] {
        for opc in [op::SET, op::ADD, op::APPEND, op::SETQ, op::GET, op::INCR] {
            for gap in [7u64, 25, 45] {
                paced.push((limit, opc, gap));
            }
        }
    }
    let pres = par_map(&paced, threads, |_, (l, o, g)| run_paced_frames(*l, *o, *g));
    for ((l, o, g), r) in paced.iter().zip(pres.iter()) {
        chunks += 8;
        match r {
            Err(e) => mach = Some(format!("paced frames op {:#x}: {}", o, e)),
            Ok(Some((sig, what))) => {
                failing += 1;
                found.entry(sig.clone()).or_insert(Violation {
                    signature: sig.clone(),
                    what: what.clone(),
                    replay: json!({"engine": "c13", "case": what, "paced_frames": true, "limit": l, "opcode": o, "gap": g}),
                });
            }
            Ok(None) => {}
        }
    }
    // limits above the 1 MiB default: items near and above 1 MiB grown by append / prepend
    let mut big: Vec<(u32, usize, u8)> = vec![];
    for (limit, stored) in [(4u32 << 20, (1usize << 20) - 100), (4 << 20, 2 << 20), (2 << 20, (1 << 20) + 5000)] {
        for opc in [op::APPEND, op::PREPEND, op::APPENDQ, op::PREPENDQ] {
            big.push((limit, stored, opc));
        }
    }
    let bres = par_map(&big, threads, |_, (l, s, o)| run_concat_under_big_limit(*l, *s, *o));
    for ((l, sz, o), r) in big.iter().zip(bres.iter()) {
        chunks += 2;
        match r {
            Err(e) => mach = Some(format!("large item op {:#x}: {}", o, e)),
            Ok(Some((sig, what))) => {
                failing += 1;
                found.entry(sig.clone()).or_insert(Violation {
                    signature: sig.clone(),
                    what: what.clone(),
                    replay: json!({"engine": "c13", "case": what, "large_item": true, "limit": l, "stored": sz, "opcode": o}),
                });
            }
            Ok(None) => {}
        }
    }
    // small requests of every opcode on keys that already hold something
    {
        let stored: Vec<Vec<u8>> = vec![b"5".to_vec(), b"000000000000000000041".to_vec(), vec![b'0'; 40], b"thirty bytes of plain text....".to_vec(), vec![b'h'; 500]];
        let mut sc: Vec<(u32, u8, usize)> = vec![];
        for o in 0u8..=0x24 {
            for (i, _) in stored.iter().enumerate() {
                sc.push((1024, o, i));
            }
        }
        let sres = par_map(&sc, threads, |_, (l, o, i)| run_small_on_stored(*l, *o, &stored[*i]));
        for ((l, o, i), r) in sc.iter().zip(sres.iter()) {
            chunks += 3;
            match r {
                Err(e) => mach = Some(format!("small request op {:#x} on stored item: {}", o, e)),
                Ok(Some((sig, what))) => {
                    failing += 1;
                    found.entry(sig.clone()).or_insert(Violation {
                        signature: sig.clone(),
                        what: what.clone(),
                        replay: json!({"engine": "c13-small-on-stored", "limit": l, "opcode": o, "stored": i}),
                    });
                }
                Ok(None) => {}
            }
        }
    }
    let wres = par_map(&within, threads, |_, (l, o, sp)| run_within_any(*l, *o, *sp));
    for ((l, o, sp), r) in within.iter().zip(wres.iter()) {
        chunks += 2;
        match r {
            Err(e) => mach = Some(format!("within-limit op {:#x}: {}", o, e)),
            Ok(Some((sig, what))) => {
                failing += 1;
                found.entry(sig.clone()).or_insert(Violation {
                    signature: sig.clone(),
                    what: what.clone(),
                    replay: json!({"engine": "c13", "case": what, "within_any": true, "limit": l, "opcode": o, "split": sp}),
                });
            }
            Ok(None) => {}
        }
    }
    for (c, r) in cases.iter().zip(results.iter()) {
        match r {
            Err(e) => mach = Some(format!("{}: {}", c.name(), e)),
            Ok(res) => {
                chunks += res.chunks;
                if let Some((sig, what)) = &res.viol {
                    failing += 1;
                    found.entry(sig.clone()).or_insert(Violation {
                        signature: sig.clone(),
                        what: what.clone(),
                        replay: json!({"engine": "c13", "case": c.name(), "limit": c.limit, "body_len": c.body_len, "opcode": c.opcode, "position": c.position, "b": c.b, "pregrown": c.pregrown, "shape": c.shape}),
                    });
                }
            }
        }
    }
    let samples: Vec<serde_json::Value> = cases.iter().step_by((cases.len() / 5).max(1)).take(5).map(|c| json!(c.name())).collect();
    CheckOutcome {
        property: "C13".into(),
        tier: if tier == Tier::Quick { "quick".into() } else { "thorough".into() },
        level: "model_checking",
        coverage: json!({
            "states": cases.len() + within.len(),
            "transitions": chunks,
            "traces_validated_against_impl": cases.len() + within.len(),
            "evaluations": cases.len() + within.len(),
            "distinct_nontrivial": cases.len() + within.len(),
            "within_limit_any_opcode_scenarios": within.len(),
            "two_clients_discarding_at_once_scenarios": two.len(),
            "concat_on_large_item_under_big_limit_scenarios": big.len(),
            "paced_uploads_of_well_formed_frames_across_the_idle_timeout": paced.len(),
            "scenarios_failing": failing,
            "limits": limits,
            "samples": samples,
            "exhaustive": true,
            "rule": "full grid: item limit x body length {limit-1, limit, limit+1, 2*limit, limit+200000} x every opcode x position {first, middle, last} x header shape {3-byte key, 251-byte key, 21 extras bytes, 65535-byte key} x bytes of the oversized body arriving with its header {0,1,L/2-1,L/2,L/2+1,L-1,L,all+following requests} x receive buffer pre-grown or not, on real loopback TCP against the real server; each scenario is compared with an in-process run of the same stream without the oversized request",
        }),
        assumptions: vec![
            "the server's first read takes at most its buffer's spare capacity (4096 bytes unless grown by an earlier large request): combinations that cannot occur are skipped".into(),
            "tokio paused-clock quiescence; loopback delivery before the send syscall returns".into(),
        ],
        violations: found.into_values().collect(),
        wall_s: t0.elapsed().as_secs_f64(),
        machinery_error: mach,
    }
}

pub fn replay(v: &serde_json::Value) -> Result<Option<String>, String> {
    if v["large_item"].as_bool() == Some(true) {
        let (l, sz, o) = (v["limit"].as_u64().unwrap_or(4 << 20) as u32, v["stored"].as_u64().unwrap_or(0) as usize, v["opcode"].as_u64().unwrap_or(0) as u8);
        let a = run_concat_under_big_limit(l, sz, o)?;
        let b = run_concat_under_big_limit(l, sz, o)?;
        if a != b {
            return Err("two replays of the same scenario differ".into());
        }
        return Ok(a.map(|(s, w)| format!("{}: {}", s, w)));
    }
    if v["paced_frames"].as_bool() == Some(true) {
        let (l, o, g) = (v["limit"].as_u64().unwrap_or(1024) as u32, v["opcode"].as_u64().unwrap_or(1) as u8, v["gap"].as_u64().unwrap_or(25));
        let a = run_paced_frames(l, o, g)?;
        let b = run_paced_frames(l, o, g)?;
        if a != b {
            return Err("two replays of the same scenario differ".into());
        }
        return Ok(a.map(|(s, w)| format!("{}: {}", s, w)));
    }
    if v["two_clients"].as_bool() == Some(true) {
        let (l, o, sp) = (v["limit"].as_u64().unwrap_or(1024) as u32, v["opcode"].as_u64().unwrap_or(0) as u8, v["split"].as_u64().unwrap_or(0) as u8);
        let a = run_two_clients(l, o, sp)?;
        let b = run_two_clients(l, o, sp)?;
        if a != b {
            return Err("two replays of the same scenario differ".into());
        }
        return Ok(a.map(|(s, w)| format!("{}: {}", s, w)));
    }
    if v["within_any"].as_bool() == Some(true) {
        let (l, o, sp) = (v["limit"].as_u64().unwrap_or(1024) as u32, v["opcode"].as_u64().unwrap_or(0) as u8, v["split"].as_u64().unwrap_or(0) as u8);
        let a = run_within_any(l, o, sp)?;
        let b = run_within_any(l, o, sp)?;
        if a != b {
            return Err("two replays of the same scenario differ".into());
        }
        return Ok(a.map(|(s, w)| format!("{}: {}", s, w)));
    }
    let c = Case {
        limit: v["limit"].as_u64().unwrap_or(1024) as u32,
        body_len: v["body_len"].as_u64().unwrap_or(0) as u32,
        opcode: v["opcode"].as_u64().unwrap_or(0) as u8,
        position: v["position"].as_u64().unwrap_or(0) as u8,
        b: v["b"].as_u64().unwrap_or(0) as u32,
        pregrown: v["pregrown"].as_bool().unwrap_or(false),
        shape: v["shape"].as_u64().unwrap_or(0) as u8,
    };
    let a = run_case(&c)?.viol;
    let b = run_case(&c)?.viol;
    if a != b {
        return Err("two replays of the same scenario differ".into());
    }
    Ok(a.map(|(s, w)| format!("{}: {}", s, w)))
}
