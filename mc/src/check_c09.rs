//! C09: request framing is independent of TCP segmentation (decoder level and socket level).

use crate::corpus::{self, Frame};
use crate::net::{self, NetCfg};
use crate::props::Tier;
use crate::report::{CheckOutcome, Violation};
use crate::sut::{Policy, SutCfg, World};
use crate::wire::{self, op, Req};
use serde_json::json;
use std::collections::BTreeMap;
use std::sync::atomic::{AtomicU64, AtomicUsize, Ordering};
use std::sync::Mutex;
use std::time::Instant;

pub const LIMIT: u32 = 1024;

/// Runs `f` over `items` on `threads` OS threads; results in input order.
pub fn par_map<T: Sync, R: Send>(items: &[T], threads: usize, f: impl Fn(usize, &T) -> R + Sync) -> Vec<R> {
    let idx = AtomicUsize::new(0);
    let out: Mutex<Vec<(usize, R)>> = Mutex::new(Vec::with_capacity(items.len()));
    // the caller only waits here: the workers are the ones the watchdog has to look at
    let (desc, watched) = crate::watchdog::current();
    crate::watchdog::idle();
    std::thread::scope(|s| {
        for _ in 0..threads.max(1) {
            s.spawn(|| {
                crate::sut::set_quiet(true);
                if watched {
                    crate::watchdog::working_on(desc.clone());
                }
                let mut local = vec![];
                loop {
                    let i = idx.fetch_add(1, Ordering::Relaxed);
                    if i >= items.len() {
                        break;
                    }
                    crate::watchdog::beat();
                    local.push((i, f(i, &items[i])));
                }
                crate::watchdog::idle();
                out.lock().unwrap().extend(local);
            });
        }
    });
    // the caller stays off the watch list: if it goes on with work of its own on the code under
    // test it declares that with watchdog::working_on / idle around that section
    let mut v = out.into_inner().unwrap();
    v.sort_by_key(|x| x.0);
    v.into_iter().map(|x| x.1).collect()
}

fn prestore(world: &World) {
    let mut c = world.conn();
    c.exec(&Req::store(op::SET, b"k", b"5", 1, 0, 0).bytes());
}

#[derive(Clone, Debug, PartialEq, Eq)]
pub(crate) struct DecOutcome {
    pub out: Vec<u8>,
    pub handled: usize,
    pub err: bool,
    quit: bool,
    panic: bool,
    dump: Vec<(Vec<u8>, Vec<u8>, u32)>,
}

pub(crate) fn run_decoder(chunks: &[&[u8]]) -> (DecOutcome, usize) {
    let world = World::new(SutCfg { item_limit: LIMIT, policy: Policy::None });
    prestore(&world);
    let mut conn = world.conn();
    let mut o = DecOutcome { out: vec![], handled: 0, err: false, quit: false, panic: false, dump: vec![] };
    for ch in chunks {
        let r = conn.exec(ch);
        o.out.extend(r.out);
        o.handled += r.handled;
        o.err |= r.decode_err.is_some();
        o.quit |= r.quit;
        o.panic |= r.panic.is_some();
    }
    o.dump = world.dump().into_iter().map(|d| (d.key, d.value, d.flags)).collect();
    (o, conn.buf.len())
}

/// Expected result of a stream when every frame is taken from exactly its own bytes: each frame
/// is decoded by a fresh decoder over the shared store.
fn framewise_expected(frames: &[&Frame]) -> (Vec<u8>, bool, Vec<(Vec<u8>, Vec<u8>, u32)>) {
    let world = World::new(SutCfg { item_limit: LIMIT, policy: Policy::None });
    prestore(&world);
    let mut out = vec![];
    let mut closed = false;
    for f in frames {
        let mut conn = world.conn();
        let r = conn.exec(&f.bytes());
        out.extend(r.out);
        if r.quit || r.decode_err.is_some() || r.panic.is_some() {
            closed = true;
            break;
        }
    }
    (out, closed, world.dump().into_iter().map(|d| (d.key, d.value, d.flags)).collect())
}

#[derive(Clone, Debug, PartialEq, Eq)]
struct SockOutcome {
    received: Vec<u8>,
    eof: bool,
    dump: Vec<(Vec<u8>, Vec<u8>, u32)>,
    panics: u64,
    /// what a fresh connection opened afterwards received for one noop
    follow: Vec<u8>,
}

fn follow_ok(f: &[u8]) -> bool {
    let (r, res) = wire::split_responses(f);
    res == 0 && r.len() == 1 && r[0].opcode == op::NOOP && r[0].status == 0 && r[0].opaque == 0xfeed_0002
}

fn run_socket(chunks: &[&[u8]]) -> Result<SockOutcome, String> {
    run_socket_mode(chunks, false)
}

/// `fin_at_once`: every chunk is written and the client's FIN follows before the server has run at
/// all (a client that sends its whole stream and half-closes): one more way for the same bytes to
/// reach the server's reads.
fn run_socket_mode(chunks: &[&[u8]], fin_at_once: bool) -> Result<SockOutcome, String> {
    let cfg = NetCfg { item_limit: LIMIT, ..Default::default() };
    let w = net::NetWorld::new(cfg)?;
    {
        // the prelude is a client like any other: a plain set on a fresh server must be answered
        let mut c = w.connect()?;
        let io = c.step(&w, &Req::store(op::SET, b"k", b"5", 1, 0, 0).bytes());
        let (r, _) = wire::split_responses(&c.got);
        if io.is_err() || r.len() != 1 || r[0].status != 0 {
            return Ok(SockOutcome {
                received: vec![],
                eof: true,
                dump: vec![],
                panics: 0,
                follow: format!("prelude connection disturbed: {:?}", r.iter().map(|x| x.short()).collect::<Vec<_>>()).into_bytes(),
            });
        }
        c.close(&w);
    }
    let p0 = crate::sut::thread_panics();
    let mut c = w.connect()?;
    for ch in chunks {
        if ch.is_empty() {
            continue;
        }
        let io = if fin_at_once { c.send(&w, ch) } else { c.step(&w, ch) };
        if io.is_err() {
            break;
        }
    }
    // the client has nothing more to say: half-close, so that a server waiting for bytes that
    // will never come shows itself by what it does at end of stream
    c.shutdown_write(&w);
    w.settle();
    c.pump();
    // the next connection to the same server starts from its own bytes only
    let follow = match w.connect() {
        Ok(mut c2) => {
            let _ = c2.step(&w, &Req::bare(op::NOOP).opaque(0xfeed_0002).bytes());
            c2.got.clone()
        }
        Err(e) => e.into_bytes(),
    };
    Ok(SockOutcome {
        follow,
        received: c.got.clone(),
        eof: c.eof,
        dump: w.dump().into_iter().map(|d| (d.key, d.value, d.flags)).collect(),
        panics: crate::sut::thread_panics() - p0,
    })
}

fn describe_resp(bytes: &[u8]) -> String {
    let (r, residue) = wire::split_responses(bytes);
    let mut s: Vec<String> = r.iter().map(|x| format!("{}:{:#x}/opq{:#x}", wire::op_name(x.opcode), x.status, x.opaque)).collect();
    if residue > 0 {
        s.push(format!("+{}B", residue));
    }
    format!("[{}]", s.join(" "))
}

pub fn check(tier: Tier, threads: usize) -> CheckOutcome {
    let t0 = Instant::now();
    let mut frames = corpus::well_formed(b"k");
    frames.extend(corpus::anomalous(b"k", LIMIT));
    for (i, f) in frames.iter_mut().enumerate() {
        f.req.opaque = 0x0100 + i as u32;
    }
    let followers: Vec<Frame> = {
        let mut v = vec![
            Frame { name: "noop".into(), req: Req::bare(op::NOOP).opaque(0x7001), well_formed: true },
            Frame { name: "set".into(), req: Req::store(op::SET, b"f", b"follow", 9, 0, 0).opaque(0x7002), well_formed: true },
            Frame { name: "get".into(), req: Req::get(op::GET, b"k").opaque(0x7003), well_formed: true },
        ];
        if tier == Tier::Thorough {
            v.push(Frame { name: "incr".into(), req: Req::delta(op::INCR, b"k", 1, 0, 0, 0).opaque(0x7004), well_formed: true });
        }
        v
    };
    let evals = AtomicU64::new(0);
    let chunks_sent = AtomicU64::new(0);
    let mut found: BTreeMap<String, Violation> = BTreeMap::new();
    let mut add = |sig: String, what: String, replay: serde_json::Value| {
        found.entry(sig.clone()).or_insert(Violation { signature: sig, what, replay });
    };

    // ---- A1: every frame is taken from exactly 24 + body-length bytes (decoder, fresh state) ----
    let mut a1 = 0u64;
    crate::watchdog::working_on("C09 frame-exact (decoder, one frame at a time)".into());
    for f in &frames {
        crate::watchdog::beat();
        let b = f.bytes();
        let (o, residue) = run_decoder(&[&b]);
        a1 += 1;
        let body = f.req.body_length() as usize;
        let carried = b.len() - 24;
        if body > LIMIT as usize {
            continue; // discarding an oversized body is the connection's job (C13)
        }
        let consumed_all = residue == 0;
        let done = o.handled == 1 || o.err || o.quit;
        if carried == body && !(consumed_all && done) && !o.panic {
            add(
                format!("frame-exact|{}", f.name),
                format!(
                    "frame {} ({} body bytes) fed whole: decoder handled {} request(s), error={}, {} byte(s) left in the buffer - it must consume exactly 24+{} bytes and yield a request, or fail",
                    f.name, body, o.handled, o.err, residue, body
                ),
                json!({"engine": "c09", "part": "frame-exact", "frame": f.name, "bytes": wire::hex_full(&b)}),
            );
        }
    }

    crate::watchdog::idle();

    // ---- A2: decoder-level segmentation independence ----
    struct Job {
        name: String,
        bytes: Vec<u8>,
        frames: Vec<usize>,
        follower: usize,
        /// the stream starts with the answered requests set(f) + get(k) and has no follower
        prefixed: bool,
        /// the frame on its own: no follower whose bytes could complete a short read
        alone: bool,
        /// prefixed stream with a noop behind the (oversized) frame
        tail_noop: bool,
    }
    let mut jobs: Vec<Job> = vec![];
    for (i, f) in frames.iter().enumerate() {
        for (j, g) in followers.iter().enumerate() {
            let mut b = f.bytes();
            b.extend(g.bytes());
            jobs.push(Job { name: format!("{}+{}", f.name, g.name), bytes: b, frames: vec![i], follower: j, prefixed: false, alone: false, tail_noop: false });
        }
    }
    for (i, f) in frames.iter().enumerate() {
        jobs.push(Job { name: format!("{} alone", f.name), bytes: f.bytes(), frames: vec![i], follower: 0, prefixed: false, alone: true, tail_noop: false });
    }
    let dec_results = par_map(&jobs, threads, |_, job| {
        let (base, _) = run_decoder(&[&job.bytes]);
        let mut bad: Option<(Vec<usize>, DecOutcome)> = None;
        let mut n = 1u64;
        let mut segs = corpus::one_cuts(job.bytes.len());
        segs.push(corpus::bytewise(job.bytes.len()));
        if tier == Tier::Thorough && job.bytes.len() <= 120 {
            segs.extend(corpus::two_cuts(job.bytes.len()));
        }
        for cuts in segs {
            let ch = corpus::split(&job.bytes, &cuts);
            let (o, _) = run_decoder(&ch);
            n += 1;
            if o != base && bad.is_none() {
                bad = Some((cuts, o));
            }
        }
        (n, base, bad)
    });
    for (job, (n, base, bad)) in jobs.iter().zip(dec_results.iter()) {
        evals.fetch_add(*n, Ordering::Relaxed);
        if let Some((cuts, o)) = bad {
            add(
                format!("decoder-segmentation|{}", job.name),
                format!(
                    "stream {} decodes differently when cut at {:?}: unsegmented handled {} err={} out={} ; segmented handled {} err={} out={}",
                    job.name,
                    if cuts.len() > 6 { vec![cuts[0], cuts.len()] } else { cuts.clone() },
                    base.handled,
                    base.err,
                    describe_resp(&base.out),
                    o.handled,
                    o.err,
                    describe_resp(&o.out)
                ),
                json!({"engine": "c09", "part": "decoder-segmentation", "stream": job.name, "bytes": wire::hex_full(&job.bytes), "cuts": cuts}),
            );
        }
    }

    // ---- B: socket-level segmentation independence + agreement with the frame-wise expectation ----
    let mut sjobs: Vec<Job> = vec![];
    for (i, f) in frames.iter().enumerate() {
        for (j, g) in followers.iter().enumerate() {
            let mut b = f.bytes();
            b.extend(g.bytes());
            sjobs.push(Job { name: format!("{}+{}", f.name, g.name), bytes: b, frames: vec![i], follower: j, prefixed: false, alone: false, tail_noop: false });
        }
    }
    // answered requests in front of every frame the decoder rejects or the connection skips: what
    // was answered before the bad frame must reach the client wherever the stream is cut
    for (i, f) in frames.iter().enumerate() {
        if f.well_formed && f.req.body_length() <= LIMIT {
            continue;
        }
        let mut b = followers[1].bytes();
        b.extend(followers[2].bytes());
        b.extend(f.bytes());
        sjobs.push(Job { name: format!("set+get+{}", f.name), bytes: b.clone(), frames: vec![i], follower: 0, prefixed: true, alone: false, tail_noop: false });
        if f.req.body_length() > LIMIT {
            // an oversized frame behind answered requests and in front of another one: its body is
            // skipped wherever the reads fall
            b.extend(followers[0].bytes());
            sjobs.push(Job { name: format!("set+get+{}+noop", f.name), bytes: b, frames: vec![i], follower: 0, prefixed: true, alone: false, tail_noop: true });
        }
    }
    // every frame on its own, cut everywhere: a complete request is taken however it arrives
    for (i, f) in frames.iter().enumerate() {
        sjobs.push(Job { name: format!("{} alone", f.name), bytes: f.bytes(), frames: vec![i], follower: 0, prefixed: false, alone: true, tail_noop: false });
    }
    if tier == Tier::Thorough {
        // all ordered pairs of corpus frames
        for (i, f) in frames.iter().enumerate() {
            for (j, g) in frames.iter().enumerate() {
                let mut b = f.bytes();
                b.extend(g.bytes());
                b.extend(followers[0].bytes());
                sjobs.push(Job { name: format!("{}+{}+noop", f.name, g.name), bytes: b, frames: vec![i, j], follower: 0, prefixed: false, alone: false, tail_noop: false });
            }
        }
    }
    let sock_results = par_map(&sjobs, threads, |_, job| -> Result<_, String> {
        let base = run_socket(&[&job.bytes])?;
        if !follow_ok(&base.follow) {
            // bytes of this stream reached another connection: everything else is unreliable
            return Ok((1, 1, base.clone(), Some((vec![usize::MAX], base))));
        }
        let again = run_socket(&[&job.bytes])?;
        if base != again {
            return Err(format!("stream {}: two unsegmented runs differ (nondeterminism not captured)", job.name));
        }
        let mut n = 2u64;
        let mut chunks = 2u64;
        let mut bad: Option<(Vec<usize>, SockOutcome)> = None;
        let mut segs = corpus::one_cuts(job.bytes.len());
        if job.bytes.len() < 2000 {
            segs.push(corpus::bytewise(job.bytes.len()));
        }
        if tier == Tier::Thorough && job.frames.len() == 1 && job.bytes.len() <= 100 {
            segs.extend(corpus::two_cuts(job.bytes.len()));
        }
        if job.bytes.len() > LIMIT as usize {
            // an oversized frame: pairs (and triples) of cuts inside its body, where the discard loop runs
            let l = job.bytes.len();
            let first = frames[job.frames[0]].bytes().len().min(l);
            let p0 = if job.prefixed { l - first - if job.tail_noop { 24 } else { 0 } } else { 0 };
            let mut offs: Vec<usize> = vec![24, 25, 24 + 100, first / 4, first / 2, first / 2 + 1, 3 * first / 4, first - 1, first, first + 1, first + 24];
            for o in offs.iter_mut() {
                *o += p0;
            }
            offs.retain(|o| *o > 0 && *o < l);
            offs.sort();
            offs.dedup();
            for a in 0..offs.len() {
                for b in (a + 1)..offs.len() {
                    segs.push(vec![offs[a], offs[b]]);
                    for c in (b + 1)..offs.len() {
                        if tier == Tier::Thorough || (c - b == 1) {
                            segs.push(vec![offs[a], offs[b], offs[c]]);
                        }
                    }
                }
            }
        }
        for cuts in segs {
            let ch = corpus::split(&job.bytes, &cuts);
            let o = run_socket(&ch)?;
            n += 1;
            chunks += ch.len() as u64;
            if o != base && bad.is_none() {
                bad = Some((cuts, o));
            }
        }
        Ok((n, chunks, base, bad))
    });
    let mut mach: Option<String> = None;
    let mut distinct_sock = 0u64;
    for (job, r) in sjobs.iter().zip(sock_results.iter()) {
        match r {
            Err(e) => mach = Some(e.clone()),
            Ok((n, ch, base, bad)) => {
                evals.fetch_add(*n, Ordering::Relaxed);
                chunks_sent.fetch_add(*ch, Ordering::Relaxed);
                distinct_sock += 1 + bad.is_some() as u64;
                if base.panics > 0 {
                    // C10's clause; counted as foreign here
                }
                if let Some((_, o)) = bad.as_ref().filter(|(cuts, _)| cuts == &vec![usize::MAX]) {
                    add(
                        "next-connection|disturbed".to_string(),
                        format!(
                            "stream {}: a fresh connection opened afterwards sent one noop and received {}",
                            job.name,
                            describe_resp(&o.follow)
                        ),
                        json!({"engine": "c09", "part": "socket-segmentation", "stream": job.name, "bytes": wire::hex_full(&job.bytes), "cuts": []}),
                    );
                    continue;
                }
                if let Some((cuts, o)) = bad {
                    add(
                        format!("socket-segmentation|{}", job.name),
                        format!(
                            "stream {} answered differently when cut at {:?}: unsegmented {} eof={} ; segmented {} eof={}",
                            job.name,
                            if cuts.len() > 6 { vec![cuts[0], cuts.len()] } else { cuts.clone() },
                            describe_resp(&base.received),
                            base.eof,
                            describe_resp(&o.received),
                            o.eof
                        ),
                        json!({"engine": "c09", "part": "socket-segmentation", "stream": job.name, "bytes": wire::hex_full(&job.bytes), "cuts": cuts}),
                    );
                }
                // agreement with the frame-wise expectation (each request taken from its own bytes)
                let mut fs: Vec<&Frame> = job.frames.iter().map(|i| &frames[*i]).collect();
                if job.prefixed {
                    fs.insert(0, &followers[2]);
                    fs.insert(0, &followers[1]);
                    if job.tail_noop {
                        fs.push(&followers[0]);
                    }
                } else if !job.alone {
                    fs.push(&followers[job.follower]);
                }
                let oversized = fs.iter().any(|f| f.req.body_length() > LIMIT);
                let (exp_out, exp_closed, exp_dump) = framewise_expected(&fs);
                let matches = base.received == exp_out && base.dump == exp_dump;
                // closing the connection at a request instead of answering it is allowed
                let closed_prefix = base.eof && exp_out.starts_with(&base.received) && base.received.len() < exp_out.len();
                if !matches && !closed_prefix && !oversized {
                    let _ = exp_closed;
                    add(
                        format!("frame-boundary|{}", job.name),
                        format!(
                            "stream {}: the server answered {} but taking every request from exactly its own 24+body bytes gives {} (bytes of one request were used for another, or not consumed)",
                            job.name,
                            describe_resp(&base.received),
                            describe_resp(&exp_out)
                        ),
                        json!({"engine": "c09", "part": "frame-boundary", "stream": job.name, "bytes": wire::hex_full(&job.bytes)}),
                    );
                }
            }
        }
    }
    // ---- C: long pipelines - tens of requests in one segment (more than any per-read budget) ----
    for n in [24usize, 64, 200, 700] {
        crate::watchdog::working_on(format!("C09 pipeline of {} requests", n));
        let mut bytes = vec![];
        let mut loud = 0usize;
        for i in 0..n {
            let r = match i % 4 {
                0 => Req::store(op::SET, format!("p{}", i).as_bytes(), b"v", 1, 0, 0),
                1 => Req::get(op::GET, format!("p{}", i - 1).as_bytes()),
                2 => Req::store(op::SETQ, format!("q{}", i).as_bytes(), b"w", 2, 0, 0),
                _ => Req::bare(op::NOOP),
            };
            if i % 4 != 2 {
                loud += 1;
            }
            bytes.extend(r.opaque(0x9000 + i as u32).bytes());
        }
        let whole = match run_socket(&[&bytes]) {
            Ok(o) => o,
            Err(e) => {
                mach = Some(e);
                break;
            }
        };
        let answered = wire::split_responses(&whole.received).0.len();
        if answered != loud {
            add(
                format!("long-pipeline|{}", n),
                format!("{} pipelined requests ({} loud) sent in one segment: {} responses", n, loud, answered),
                json!({"engine": "c09", "part": "socket-segmentation", "stream": format!("pipeline-{}", n), "bytes": wire::hex_full(&bytes), "cuts": []}),
            );
            continue;
        }
        // the whole burst and the FIN are there before the server's first read
        match run_socket_mode(&[&bytes], true) {
            Ok(o) if o != whole => {
                add(
                    format!("socket-segmentation|pipeline-{}+fin", n),
                    format!(
                        "{} pipelined requests answered differently when the client's FIN is queued right behind them: {} responses instead of {}",
                        n,
                        wire::split_responses(&o.received).0.len(),
                        answered
                    ),
                    json!({"engine": "c09", "part": "socket-segmentation", "stream": format!("pipeline-{}", n), "bytes": wire::hex_full(&bytes), "cuts": [], "fin_at_once": true}),
                );
            }
            Ok(_) => {}
            Err(e) => mach = Some(e),
        }
        evals.fetch_add(1, Ordering::Relaxed);
        let mut cut_sets: Vec<Vec<usize>> = vec![(1..bytes.len()).step_by(97).collect(), (1..bytes.len()).step_by(24).collect()];
        if bytes.len() < 3000 {
            cut_sets.push(corpus::bytewise(bytes.len()));
        }
        for cuts in cut_sets {
            let ch = corpus::split(&bytes, &cuts);
            match run_socket(&ch) {
                Ok(o) if o != whole => {
                    add(
                        format!("socket-segmentation|pipeline-{}", n),
                        format!(
                            "{} pipelined requests answered differently when cut every {} bytes: unsegmented {} responses, segmented {}",
                            n,
                            cuts.get(1).map(|c| c - cuts[0]).unwrap_or(1),
                            answered,
                            wire::split_responses(&o.received).0.len()
                        ),
                        json!({"engine": "c09", "part": "socket-segmentation", "stream": format!("pipeline-{}", n), "bytes": wire::hex_full(&bytes), "cuts": cuts}),
                    );
                    break;
                }
                Ok(_) => {}
                Err(e) => mach = Some(e),
            }
            evals.fetch_add(1, Ordering::Relaxed);
        }
    }
    crate::watchdog::idle();
    // runs that differ from each other are explained by a leak between connections once one was seen
    if found.contains_key("next-connection|disturbed") && mach.as_deref().map(|m| m.contains("two unsegmented runs differ")).unwrap_or(false) {
        mach = None;
    }
    let evaluations = evals.load(Ordering::Relaxed) + a1;
    let violations: Vec<Violation> = found.into_values().collect();
    let samples: Vec<serde_json::Value> = sjobs
        .iter()
        .step_by((sjobs.len() / 4).max(1))
        .take(4)
        .map(|j| json!({"stream": j.name, "bytes": wire::hex(&j.bytes), "segmentations": "every single cut, byte-at-a-time (thorough: every pair of cuts)"}))
        .collect();
    CheckOutcome {
        property: "C09".into(),
        tier: if tier == Tier::Quick { "quick".into() } else { "thorough".into() },
        level: "model_checking",
        coverage: json!({
            "states": distinct_sock + jobs.len() as u64,
            "transitions": chunks_sent.load(Ordering::Relaxed),
            "traces_validated_against_impl": evaluations,
            "evaluations": evaluations,
            "distinct_nontrivial": sjobs.len() + jobs.len(),
            "frames_in_corpus": frames.len(),
            "decoder_streams": jobs.len(),
            "socket_streams": sjobs.len(),
            "samples": samples,
            "exhaustive": true,
            "rule": "every stream of the corpus (each frame of every opcode 0x00-0x24 plus anomalous-but-accepted frames, followed by noop/set/get; thorough: all ordered pairs) x every single cut + byte-at-a-time (+ every pair of cuts in thorough) is fed to the real decoder and sent over real loopback TCP to the real server on a paused single-thread runtime; 'states' = distinct (stream, outcome) pairs, 'transitions' = chunks delivered",
        }),
        assumptions: vec![
            "tokio's paused clock advances only when no task is runnable; loopback delivers a transmitted segment before the send syscall returns (SIOCOUTQNSD == 0 checked)".into(),
            "segmentations with three or more cuts other than byte-at-a-time are not enumerated".into(),
        ],
        violations,
        wall_s: t0.elapsed().as_secs_f64(),
        machinery_error: mach,
    }
}

pub fn replay(v: &serde_json::Value) -> Result<Option<String>, String> {
    let bytes = wire::unhex(v["bytes"].as_str().unwrap_or(""));
    let cuts: Vec<usize> = v["cuts"].as_array().map(|a| a.iter().filter_map(|x| x.as_u64().map(|y| y as usize)).collect()).unwrap_or_default();
    let part = v["part"].as_str().unwrap_or("");
    let chunks = corpus::split(&bytes, &cuts);
    if part == "socket-segmentation" || part == "frame-boundary" {
        let base = run_socket(&[&bytes])?;
        if !follow_ok(&base.follow) {
            return Ok(Some(format!("a fresh connection opened after the stream received {} for one noop", describe_resp(&base.follow))));
        }
        let seg = run_socket(&chunks)?;
        let seg2 = run_socket(&chunks)?;
        if seg != seg2 {
            return Err("two replays of the same segmentation differ".into());
        }
        if base != seg {
            return Ok(Some(format!("unsegmented {} eof={} / cut at {:?}: {} eof={}", describe_resp(&base.received), base.eof, cuts, describe_resp(&seg.received), seg.eof)));
        }
        Ok(None)
    } else {
        let (base, residue) = run_decoder(&[&bytes]);
        let (seg, _) = run_decoder(&chunks);
        let (seg2, _) = run_decoder(&chunks);
        if seg != seg2 {
            return Err("two replays of the same segmentation differ".into());
        }
        if base != seg {
            return Ok(Some(format!("decoder: unsegmented handled {} err={} / cut at {:?}: handled {} err={}", base.handled, base.err, cuts, seg.handled, seg.err)));
        }
        if part == "frame-exact" && residue != 0 {
            return Ok(Some(format!("{} bytes left in the buffer after the frame", residue)));
        }
        Ok(None)
    }
}
