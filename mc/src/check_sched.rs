//! Check driver for the E1 `sched` engine: distributes programs over OS threads, merges results.

use crate::props::Tier;
use crate::props_sched::Family;
use crate::report::{self, CheckOutcome, Violation};
use crate::sched::{self, ProgResult, Program};
use serde_json::{json, Value};
use std::sync::atomic::{AtomicUsize, Ordering};
use std::sync::Mutex;
use std::time::Instant;

pub fn run_family(fam: &Family, threads: usize) -> Vec<ProgResult> {
    let idx = AtomicUsize::new(0);
    let results: Mutex<Vec<(usize, ProgResult)>> = Mutex::new(vec![]);
    std::thread::scope(|s| {
        for _ in 0..threads.max(1) {
            s.spawn(|| {
                crate::sut::set_quiet(true);
                sched::warm_up();
                loop {
                    let i = idx.fetch_add(1, Ordering::Relaxed);
                    if i >= fam.programs.len() {
                        break;
                    }
                    crate::watchdog::working_on(format!("[{}] program {}", fam.name, fam.programs[i].describe()));
                    let r = sched::explore_program(&fam.programs[i], fam.opts);
                    crate::watchdog::idle();
                    results.lock().unwrap().push((i, r));
                }
            });
        }
    });
    let mut v = results.into_inner().unwrap();
    v.sort_by_key(|x| x.0);
    v.into_iter().map(|x| x.1).collect()
}

/// Signature of a violating program.  If the program contains a pair of concurrent commands whose
/// 2x1 signature is a listed finding, the violation is attributed to that pair.
fn signature(prop: &str, clause: &str, prog: &Program, known: &[report::Known]) -> String {
    let mut full = format!("{}|{}|{}", clause, prog.init.name(), prog.kinds().join("||"));
    if !prog.tag.is_empty() {
        full = format!("{}|{}", full, prog.tag);
    }
    // attribution to a listed pair is for defects of a pair of commands (C04's get-then-set pairs,
    // C14's racing stores: inside a larger program the finding is the pair's); the accounting
    // clauses and programs run in a special setting are identified by the whole program
    if clause.starts_with("usage-") || !prog.tag.is_empty() || known.iter().any(|k| k.property == prop && k.signature == full) {
        return full;
    }
    // pairs of single commands from different clients
    for a in 0..prog.clients.len() {
        for b in (a + 1)..prog.clients.len() {
            for ca in &prog.clients[a] {
                for cb in &prog.clients[b] {
                    let mut pair = vec![sched::kind_with_cas(ca), sched::kind_with_cas(cb)];
                    pair.sort();
                    // the key's state evolves inside a larger program: the pair may be listed for
                    // another initial state
                    for init in [prog.init.name(), "present", "absent", "expired"] {
                        let sig = format!("{}|{}|{}", clause, init, pair.join("||"));
                        if known.iter().any(|k| k.property == prop && k.signature == sig) {
                            return sig;
                        }
                    }
                }
            }
        }
    }
    full
}

pub fn check(prop: &'static str, tier: Tier, fams: Vec<Family>, owned: &[&str], threads: usize) -> CheckOutcome {
    let t0 = Instant::now();
    // wall cap of the whole check: what is still running then is reported as capped
    sched::set_deadline_in(if tier == Tier::Quick { 50 } else { 900 });
    let known = report::load_known();
    let mut violations: Vec<Violation> = vec![];
    let mut fam_cov: Vec<Value> = vec![];
    let (mut execs, mut choice_points, mut sched_points, mut outcomes, mut programs) = (0u64, 0u64, 0u64, 0u64, 0u64);
    let mut samples: Vec<Value> = vec![];
    let mut mach: Option<String> = None;
    let mut exhaustive = true;
    let mut foreign: std::collections::BTreeMap<String, u64> = Default::default();
    for fam in &fams {
        let res = run_family(fam, threads);
        let mut f_execs = 0u64;
        let mut f_viol = 0u64;
        let mut min_bound: Option<u32> = None;
        let mut capped = 0u64;
        let mut saturated = 0u64;
        let mut per_bound: Vec<u64> = vec![];
        for (i, r) in res.iter().enumerate() {
            let prog = &fam.programs[i];
            programs += 1;
            f_execs += r.executions;
            choice_points += r.choice_points;
            sched_points += r.sched_points;
            outcomes += r.distinct_outcomes as u64;
            for (b, n) in r.executions_per_bound.iter().enumerate() {
                if per_bound.len() <= b {
                    per_bound.push(0);
                }
                per_bound[b] += n;
            }
            if let Some(e) = &r.error {
                mach = Some(format!("{} [{}]: {}", fam.name, prog.describe(), e));
            }
            if r.saturated {
                saturated += 1;
            }
            if r.capped {
                capped += 1;
                exhaustive = false;
            }
            if r.violation.is_none() && !r.capped {
                let b = r.bound_completed.unwrap_or(0);
                min_bound = Some(min_bound.map_or(b, |m| m.min(b)));
            }
            if let Some(v) = &r.violation {
                if !owned.contains(&v.clause) {
                    *foreign.entry(v.clause.to_string()).or_insert(0) += 1;
                    continue;
                }
                f_viol += 1;
                let sig = signature(prop, v.clause, prog, &known);
                if violations.iter().any(|x| x.signature == sig) {
                    continue;
                }
                violations.push(Violation {
                    signature: sig,
                    what: format!(
                        "{} at preemption bound {} in program [{}]: {}",
                        v.clause,
                        v.bound,
                        prog.describe(),
                        v.detail
                    ),
                    replay: json!({
                        "engine": "sched",
                        "tier": if tier == Tier::Quick { "quick" } else { "thorough" },
                        "family": fam.name,
                        "program_index": i,
                        "program": prog.describe(),
                        "choices": v.choices,
                        "bound": v.bound,
                        "clause": v.clause,
                        "detail": v.detail,
                    }),
                });
            }
        }
        execs += f_execs;
        if let Some(p) = fam.programs.get(fam.programs.len() / 3) {
            samples.push(json!({"family": fam.name, "program": p.describe()}));
        }
        fam_cov.push(json!({
            "family": fam.name,
            "programs": fam.programs.len(),
            "preemption_bound_requested": fam.opts.max_bound,
            "preemption_bound_completed_by_all_nonviolating_programs": min_bound,
            "executions": f_execs,
            "executions_per_bound": per_bound,
            "programs_violating": f_viol,
            "programs_capped": capped,
            "programs_fully_enumerated_all_schedules": saturated,
            "step_horizon": fam.opts.max_steps,
        }));
    }
    let coverage = json!({
        "states": outcomes,
        "transitions": choice_points + sched_points,
        "traces_validated_against_impl": execs,
        "evaluations": execs,
        "programs": programs,
        "distinct_outcomes": outcomes,
        "scheduling_choice_points": choice_points,
        "atomic_scheduling_points": sched_points,
        "samples": samples,
        "exhaustive": exhaustive,
        "foreign_discrepancies": foreign,
        "rule": "per program: depth-first enumeration of every schedule with at most b preemptions (b iterated from 0) at DashMap shard-lock and atomic granularity on the real store; 'states' counts distinct (responses, real-time order, final content) outcomes; every execution is checked by brute-force linearizability against the sequential specification",
        "families": fam_cov,
    });
    CheckOutcome {
        property: prop.to_string(),
        tier: if tier == Tier::Quick { "quick".into() } else { "thorough".into() },
        level: "model_checking",
        coverage,
        assumptions: vec![
            "sequentially consistent exploration: scheduling points at DashMap shard-lock acquire/release and at the two AtomicU64s; memcrs has no unsafe code".into(),
            "the vendored dashmap 5.5.3 differs from upstream only in lock.rs (shuttle BatchSemaphore, same admission rule), fixed hasher and settable shard count".into(),
            "schedules needing more preemptions than the completed bound are not covered".into(),
        ],
        violations,
        wall_s: t0.elapsed().as_secs_f64(),
        machinery_error: mach,
    }
}
