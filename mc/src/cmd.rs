//! Abstract commands of the exploration alphabets and their resolution to wire requests.

#![allow(dead_code)]

use crate::wire::{op, Req};

/// CAS argument, relative to what the model knows about the key.
#[derive(Clone, Copy, Debug, PartialEq, Eq, Hash)]
pub enum CasArg {
    Zero,
    Current,
    Stale1,
    Stale2,
    CurrentPlus1,
    Max,
    Arb(u64),
}

#[derive(Clone, Copy, Debug, PartialEq, Eq, Hash)]
pub enum StoreKind {
    Set,
    Add,
    Replace,
}

/// Relative clock movements.
#[derive(Clone, Copy, Debug, PartialEq, Eq, Hash)]
pub enum Tick {
    Plus(u64),
    /// to the earliest pending expiry instant strictly in the future (no-op if none)
    ToNextExpiry,
    /// to one second before the earliest pending expiry (no-op if none or not in the future)
    BeforeNextExpiry,
}

#[derive(Clone, Debug, PartialEq, Eq, Hash)]
pub enum Cmd {
    Get { key: Vec<u8>, with_key: bool, quiet: bool },
    Store { kind: StoreKind, key: Vec<u8>, value: Vec<u8>, flags: u32, ttl: u32, cas: CasArg, quiet: bool },
    Concat { append: bool, key: Vec<u8>, value: Vec<u8>, cas: CasArg, quiet: bool },
    Delta { incr: bool, key: Vec<u8>, delta: u64, initial: u64, exp: u32, cas: CasArg, quiet: bool },
    Delete { key: Vec<u8>, cas: CasArg, quiet: bool },
    Flush { delay: Option<u32>, quiet: bool },
    Noop,
    Version,
    Stat,
    Tick(Tick),
}

impl Cmd {
    pub fn key(&self) -> Option<&[u8]> {
        match self {
            Cmd::Get { key, .. }
            | Cmd::Store { key, .. }
            | Cmd::Concat { key, .. }
            | Cmd::Delta { key, .. }
            | Cmd::Delete { key, .. } => Some(key),
            _ => None,
        }
    }
    pub fn opcode(&self) -> u8 {
        match self {
            Cmd::Get { with_key, quiet, .. } => match (with_key, quiet) {
                (false, false) => op::GET,
                (false, true) => op::GETQ,
                (true, false) => op::GETK,
                (true, true) => op::GETKQ,
            },
            Cmd::Store { kind, quiet, .. } => match (kind, quiet) {
                (StoreKind::Set, false) => op::SET,
                (StoreKind::Set, true) => op::SETQ,
                (StoreKind::Add, false) => op::ADD,
                (StoreKind::Add, true) => op::ADDQ,
                (StoreKind::Replace, false) => op::REPLACE,
                (StoreKind::Replace, true) => op::REPLACEQ,
            },
            Cmd::Concat { append, quiet, .. } => match (append, quiet) {
                (true, false) => op::APPEND,
                (true, true) => op::APPENDQ,
                (false, false) => op::PREPEND,
                (false, true) => op::PREPENDQ,
            },
            Cmd::Delta { incr, quiet, .. } => match (incr, quiet) {
                (true, false) => op::INCR,
                (true, true) => op::INCRQ,
                (false, false) => op::DECR,
                (false, true) => op::DECRQ,
            },
            Cmd::Delete { quiet, .. } => {
                if *quiet {
                    op::DELETEQ
                } else {
                    op::DELETE
                }
            }
            Cmd::Flush { quiet, .. } => {
                if *quiet {
                    op::FLUSHQ
                } else {
                    op::FLUSH
                }
            }
            Cmd::Noop => op::NOOP,
            Cmd::Version => op::VERSION,
            Cmd::Stat => op::STAT,
            Cmd::Tick(_) => 0xff,
        }
    }
    pub fn is_quiet(&self) -> bool {
        crate::wire::is_quiet(self.opcode())
    }
    /// command kind for signatures ("set", "append", ...; quiet variants map to the loud name)
    pub fn kind(&self) -> &'static str {
        match self {
            Cmd::Get { with_key: false, .. } => "get",
            Cmd::Get { with_key: true, .. } => "getk",
            Cmd::Store { kind: StoreKind::Set, .. } => "set",
            Cmd::Store { kind: StoreKind::Add, .. } => "add",
            Cmd::Store { kind: StoreKind::Replace, .. } => "replace",
            Cmd::Concat { append: true, .. } => "append",
            Cmd::Concat { append: false, .. } => "prepend",
            Cmd::Delta { incr: true, .. } => "incr",
            Cmd::Delta { incr: false, .. } => "decr",
            Cmd::Delete { .. } => "delete",
            Cmd::Flush { delay: None, .. } | Cmd::Flush { delay: Some(0), .. } => "flush0",
            Cmd::Flush { .. } => "flushN",
            Cmd::Noop => "noop",
            Cmd::Version => "version",
            Cmd::Stat => "stat",
            Cmd::Tick(_) => "tick",
        }
    }
    pub fn cas_arg(&self) -> Option<CasArg> {
        match self {
            Cmd::Store { cas, .. } | Cmd::Concat { cas, .. } | Cmd::Delta { cas, .. } | Cmd::Delete { cas, .. } => {
                Some(*cas)
            }
            _ => None,
        }
    }
    /// The loud/quiet twin of this command (None if it has none).
    pub fn toggled(&self) -> Option<Cmd> {
        let mut c = self.clone();
        match &mut c {
            Cmd::Get { quiet, .. }
            | Cmd::Store { quiet, .. }
            | Cmd::Concat { quiet, .. }
            | Cmd::Delta { quiet, .. }
            | Cmd::Delete { quiet, .. }
            | Cmd::Flush { quiet, .. } => {
                *quiet = !*quiet;
                Some(c)
            }
            _ => None,
        }
    }
    /// Wire request with the CAS argument already resolved.
    pub fn to_req(&self, cas: u64, opaque: u32) -> Option<Req> {
        let opc = self.opcode();
        let r = match self {
            Cmd::Get { key, .. } => Req::get(opc, key),
            Cmd::Store { key, value, flags, ttl, .. } => Req::store(opc, key, value, *flags, *ttl, cas),
            Cmd::Concat { key, value, .. } => Req::concat(opc, key, value, cas),
            Cmd::Delta { key, delta, initial, exp, .. } => Req::delta(opc, key, *delta, *initial, *exp, cas),
            Cmd::Delete { key, .. } => Req::delete(opc, key, cas),
            Cmd::Flush { delay, .. } => Req::flush(opc, *delay),
            Cmd::Noop | Cmd::Version | Cmd::Stat => Req::bare(opc),
            Cmd::Tick(_) => return None,
        };
        Some(r.opaque(opaque))
    }
    pub fn short(&self) -> String {
        use crate::wire::show;
        let q = if self.is_quiet() { "q" } else { "" };
        match self {
            Cmd::Get { key, .. } => format!("{}{} {}", self.kind(), q, show(key)),
            Cmd::Store { key, value, flags, ttl, cas, .. } => format!(
                "{}{} {} v={} f={:#x} ttl={} cas={:?}",
                self.kind(),
                q,
                show(key),
                show(value),
                flags,
                ttl,
                cas
            ),
            Cmd::Concat { key, value, cas, .. } => {
                format!("{}{} {} v={} cas={:?}", self.kind(), q, show(key), show(value), cas)
            }
            Cmd::Delta { key, delta, initial, exp, cas, .. } => format!(
                "{}{} {} d={} init={} exp={:#x} cas={:?}",
                self.kind(),
                q,
                show(key),
                delta,
                initial,
                exp,
                cas
            ),
            Cmd::Delete { key, cas, .. } => format!("delete{} {} cas={:?}", q, show(key), cas),
            Cmd::Flush { delay, .. } => format!("flush{} {:?}", q, delay),
            Cmd::Noop => "noop".into(),
            Cmd::Version => "version".into(),
            Cmd::Stat => "stat".into(),
            Cmd::Tick(t) => format!("tick {:?}", t),
        }
    }
}
