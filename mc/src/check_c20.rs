//! C20 (E5 `cfg`): behaviour is the same under every runtime configuration.  One subprocess per
//! configuration runs `mc serve <memcrsd args>` = cli::parser::parse + create_memcrs_server +
//! block_on(system_timer.run()) (main() of memcrsd minus logging); a blocking client drives the same
//! programs against each and compares transcripts, then probes the configured limits and real time.

use crate::cmd::Cmd;
use crate::props::{self, Tier};
use crate::report::{CheckOutcome, Violation};
use crate::seq::{self, Runner};
use crate::wire::{self, op, st, Req};
use serde_json::json;
use std::collections::BTreeMap;
use std::io::{Read, Write};
use std::net::{SocketAddr, TcpStream};
use std::process::{Child, Command, Stdio};
use std::time::{Duration, Instant};

#[derive(Clone, Debug)]
pub struct Config {
    pub runtime: &'static str,
    pub threads: usize,
    pub policy: &'static str,
    pub port: u16,
    pub item_size: &'static str,
    pub item_bytes: u32,
    pub conn_limit: u32,
}

impl Config {
    fn name(&self) -> String {
        format!(
            "runtime={} threads={} eviction={} port={} max-item-size={} connection-limit={}",
            self.runtime, self.threads, self.policy, self.port, self.item_size, self.conn_limit
        )
    }
    fn args(&self, ip: &str) -> Vec<String> {
        vec![
            "memcrsd".into(),
            "--runtime-type".into(),
            self.runtime.into(),
            "--threads".into(),
            self.threads.to_string(),
            "--eviction-policy".into(),
            self.policy.into(),
            "--memory-limit".into(),
            "64MiB".into(),
            "--port".into(),
            self.port.to_string(),
            "--item-size-limit".into(),
            self.item_size.into(),
            "--connection-limit".into(),
            self.conn_limit.to_string(),
            "--listen-address".into(),
            ip.into(),
        ]
    }
}

/// `mc serve <args...>`: what memcrsd's main() does, minus logging.
pub fn serve(args: Vec<String>) -> i32 {
    let cfg = match memcrs::memcache::cli::parser::parse(args) {
        Ok(c) => c,
        Err(e) => {
            eprintln!("{}", e);
            return 2;
        }
    };
    let timer = std::sync::Arc::new(memcrs::server::timer::SystemTimer::new());
    let rt = memcrs::memcache_server::runtime_builder::create_memcrs_server(cfg, timer.clone());
    rt.block_on(timer.run());
    0
}

struct Server {
    child: Child,
    addr: SocketAddr,
}
impl Drop for Server {
    fn drop(&mut self) {
        let _ = self.child.kill();
        let _ = self.child.wait();
    }
}

fn my_ip(slot: usize) -> String {
    let pid = std::process::id();
    format!("127.{}.{}.{}", ((pid >> 8) & 0xff).max(1), pid & 0xff, 100 + slot % 100)
}

fn start(cfg: &Config, slot: usize, use_memcrsd: Option<&str>) -> Result<Server, String> {
    let ip = my_ip(slot);
    let exe = std::env::current_exe().map_err(|e| e.to_string())?;
    let mut cmd = match use_memcrsd {
        Some(bin) => {
            let mut c = Command::new(bin);
            c.args(&cfg.args(&ip)[1..]);
            c
        }
        None => {
            let mut c = Command::new(exe);
            c.arg("serve").args(cfg.args(&ip));
            c
        }
    };
    // the server must not outlive this process, however it ends (watchdog exit, kill by a timeout)
    unsafe {
        use std::os::unix::process::CommandExt;
        cmd.pre_exec(|| {
            libc::prctl(libc::PR_SET_PDEATHSIG, libc::SIGKILL);
            Ok(())
        });
    }
    let child = cmd.stdin(Stdio::null()).stdout(Stdio::null()).stderr(Stdio::null()).spawn().map_err(|e| format!("spawn: {}", e))?;
    let addr: SocketAddr = format!("{}:{}", ip, cfg.port).parse().unwrap();
    let mut srv = Server { child, addr };
    let t0 = Instant::now();
    loop {
        if let Ok(Some(st)) = srv.child.try_wait() {
            return Err(format!("server process exited at start-up: {}", st));
        }
        if let Ok(s) = TcpStream::connect_timeout(&addr, Duration::from_millis(200)) {
            drop(s);
            // give every listener thread time to bind
            std::thread::sleep(Duration::from_millis(150));
            return Ok(srv);
        }
        if t0.elapsed() > Duration::from_secs(10) {
            return Err("server did not start listening within 10 s".into());
        }
        std::thread::sleep(Duration::from_millis(20));
    }
}

struct Client {
    s: TcpStream,
}
impl Client {
    fn connect(addr: SocketAddr) -> Result<Client, String> {
        let s = TcpStream::connect_timeout(&addr, Duration::from_secs(5)).map_err(|e| format!("connect: {}", e))?;
        s.set_nodelay(true).ok();
        Ok(Client { s })
    }
    /// Reads exactly `n` response frames (patience: `wait`); returns what arrived.
    fn read_frames(&mut self, n: usize, wait: Duration) -> Vec<u8> {
        let mut got = vec![];
        let deadline = Instant::now() + wait;
        let mut buf = [0u8; 65536];
        loop {
            let (fr, residue) = wire::split_responses(&got);
            if fr.len() >= n && residue == 0 {
                break;
            }
            let left = deadline.saturating_duration_since(Instant::now());
            if left.is_zero() {
                break;
            }
            self.s.set_read_timeout(Some(left.max(Duration::from_millis(1)))).ok();
            match self.s.read(&mut buf) {
                Ok(0) => break,
                Ok(k) => got.extend_from_slice(&buf[..k]),
                Err(_) => break,
            }
        }
        got
    }
    fn send(&mut self, b: &[u8]) -> bool {
        self.s.write_all(b).is_ok()
    }
}

/// The programs: spanning-tree histories of the C01 and C07 explorations (no clock steps, CAS 0),
/// each followed by a flush, all on one connection; a noop after each request fences quiet commands.
pub fn programs(depth: usize) -> Vec<(String, Vec<Req>, Vec<u8>)> {
    let mut out = vec![];
    for (prop, idx) in [("C01", 0usize), ("C07", 0)] {
        let mut cfg = props::seq_cfgs(prop, Tier::Quick).remove(idx);
        cfg.alphabet.retain(|c| !matches!(c, Cmd::Tick(_)) && matches!(c.cas_arg(), None | Some(crate::cmd::CasArg::Zero)));
        cfg.alphabet.retain(|c| !matches!(c, Cmd::Flush { delay: Some(_), .. }));
        cfg.depth = depth;
        let rep = seq::explore_seq(&cfg, 4, depth);
        for h in rep.tree.iter().filter(|h| !h.is_empty()) {
            // expected responses from the in-process run (validated by the reference model there)
            let mut r = Runner::new(&cfg);
            let mut reqs = vec![];
            let mut expected = vec![];
            for e in h {
                let ap = r.apply(e.cmd as usize, &e.choices);
                let cmd = &cfg.alphabet[e.cmd as usize];
                let opaque = seq::opaque_for(e.cmd as usize);
                reqs.push(cmd.to_req(0, opaque).unwrap());
                expected.extend(ap.out_bytes);
            }
            out.push((format!("{}:{}", prop, seq::hist_text(&cfg, h).join(" ; ")), reqs, expected));
        }
    }
    out
}

fn strip_cas(bytes: &[u8]) -> Vec<(u8, u16, u32, Vec<u8>)> {
    wire::split_responses(bytes).0.into_iter().map(|r| (r.opcode, r.status, r.opaque, r.body)).collect()
}

struct ConfigResult {
    transcript: Vec<u8>,
    problems: Vec<(String, String)>,
    programs: usize,
}

fn drive(cfg: &Config, slot: usize, progs: &[(String, Vec<Req>, Vec<u8>)], memcrsd: Option<&str>) -> Result<ConfigResult, String> {
    let srv = start(cfg, slot, memcrsd)?;
    let mut problems: Vec<(String, String)> = vec![];
    let mut transcript = vec![];
    let patience = Duration::from_secs(5);
    // ---- same programs, one connection ----
    {
        let mut c = Client::connect(srv.addr)?;
        for (name, reqs, expected) in progs {
            let mut bytes = vec![];
            for r in reqs {
                bytes.extend(r.bytes());
            }
            bytes.extend(Req::flush(op::FLUSH, None).opaque(0xf1f1).bytes());
            if !c.send(&bytes) {
                problems.push(("program|send-failed".into(), format!("{}: connection lost", name)));
                break;
            }
            let exp_n = wire::split_responses(expected).0.len() + 1;
            let got = c.read_frames(exp_n, patience);
            let (fr, _) = wire::split_responses(&got);
            if fr.len() != exp_n {
                problems.push(("program|responses-missing".into(), format!("{}: {} responses, expected {}", name, fr.len(), exp_n)));
                break;
            }
            // against the in-process expectation (CAS values differ: the store is shared here)
            let mut exp = strip_cas(expected);
            exp.push((op::FLUSH, 0, 0xf1f1, vec![]));
            if strip_cas(&got) != exp && problems.iter().all(|p| p.0 != "program|differs-from-in-process") {
                problems.push((
                    "program|differs-from-in-process".into(),
                    format!("{}: answered {:?} but the in-process run of the same requests gives {:?}", name, strip_cas(&got).iter().map(|x| (x.0, x.1)).collect::<Vec<_>>(), exp.iter().map(|x| (x.0, x.1)).collect::<Vec<_>>()),
                ));
            }
            transcript.extend(got);
            crate::watchdog::beat();
        }
    }
    crate::watchdog::beat();
    // ---- a populated store: 1500 items, read back, flushed (behaviour must not depend on how
    // many items a configuration happens to hold) ----
    {
        let mut c = Client::connect(srv.addr)?;
        let n = 1500usize;
        let mut bytes = vec![];
        for i in 0..n {
            bytes.extend(Req::store(op::SETQ, format!("pop{}", i).as_bytes(), format!("v{}", i).as_bytes(), i as u32, 0, 0).opaque(i as u32).bytes());
        }
        bytes.extend(Req::bare(op::NOOP).opaque(0xb001).bytes());
        bytes.extend(Req::get(op::GET, b"pop0").opaque(0xb002).bytes());
        bytes.extend(Req::get(op::GET, format!("pop{}", n - 1).as_bytes()).opaque(0xb003).bytes());
        bytes.extend(Req::flush(op::FLUSH, None).opaque(0xb004).bytes());
        bytes.extend(Req::get(op::GET, b"pop0").opaque(0xb005).bytes());
        bytes.extend(Req::bare(op::NOOP).opaque(0xb006).bytes());
        let sent = c.send(&bytes);
        let got = c.read_frames(6, patience);
        let seen: Vec<(u8, u16, u32)> = wire::split_responses(&got).0.iter().map(|r| (r.opcode, r.status, r.opaque)).collect();
        let want = vec![
            (op::NOOP, st::OK, 0xb001),
            (op::GET, st::OK, 0xb002),
            (op::GET, st::OK, 0xb003),
            (op::FLUSH, st::OK, 0xb004),
            (op::GET, st::NOT_FOUND, 0xb005),
            (op::NOOP, st::OK, 0xb006),
        ];
        if !sent || seen != want {
            problems.push((
                "populated-store".into(),
                format!("{} quiet sets, noop, 2 gets, flush, get, noop on one connection answered {:?}, expected {:?}", n, seen, want),
            ));
        }
        for r in wire::split_responses(&got).0 {
            transcript.extend_from_slice(&[r.opcode]);
            transcript.extend_from_slice(&r.status.to_be_bytes());
            transcript.extend_from_slice(&r.body);
        }
    }
    crate::watchdog::beat();
    // ---- item size limit: body = limit accepted, limit + 1 refused ----
    {
        let mut c = Client::connect(srv.addr)?;
        let l = cfg.item_bytes as usize;
        let ok = Req::store(op::SET, b"L", &vec![b'v'; l - 8 - 1], 0, 0, 0).opaque(1).bytes();
        let big = Req::store(op::SET, b"L", &vec![b'v'; l - 8], 0, 0, 0).opaque(2).bytes();
        c.send(&ok);
        let r1 = wire::split_responses(&c.read_frames(1, patience)).0;
        c.send(&big);
        let r2 = wire::split_responses(&c.read_frames(1, patience)).0;
        c.send(&Req::bare(op::NOOP).opaque(3).bytes());
        let r3 = wire::split_responses(&c.read_frames(1, patience)).0;
        let s1 = r1.first().map(|r| r.status);
        let s2 = r2.first().map(|r| r.status);
        if s1 != Some(st::OK) || s2 != Some(st::TOO_LARGE) || r3.first().map(|r| r.opcode) != Some(op::NOOP) {
            problems.push((
                "item-limit".into(),
                format!("configured max item size {} bytes: body of exactly the limit answered {:?}, limit+1 answered {:?}, following noop {:?}", l, s1, s2, r3.first().map(|r| r.status)),
            ));
        }
        c.send(&Req::flush(op::FLUSH, None).bytes());
        c.read_frames(1, patience);
        // the same refusal in the middle of a pipeline, all in one write: the requests behind the
        // refused one are answered under every configured limit
        drop(c);
        std::thread::sleep(Duration::from_millis(30));
        let mut c = Client::connect(srv.addr)?;
        let mut bytes = Req::store(op::SET, b"P", b"before", 1, 0, 0).opaque(0x8001).bytes();
        bytes.extend(Req::store(op::SET, b"L", &vec![b'w'; l - 8], 0, 0, 0).opaque(0x8002).bytes());
        bytes.extend(Req::store(op::SET, b"P", b"after", 2, 0, 0).opaque(0x8003).bytes());
        bytes.extend(Req::get(op::GET, b"P").opaque(0x8004).bytes());
        bytes.extend(Req::bare(op::NOOP).opaque(0x8005).bytes());
        let sent = c.send(&bytes);
        let got = c.read_frames(5, patience);
        let seen: Vec<(u8, u16, u32)> = wire::split_responses(&got).0.iter().map(|r| (r.opcode, r.status, r.opaque)).collect();
        let want = vec![(op::SET, st::OK, 0x8001), (op::SET, st::TOO_LARGE, 0x8002), (op::SET, st::OK, 0x8003), (op::GET, st::OK, 0x8004), (op::NOOP, st::OK, 0x8005)];
        let value_ok = wire::split_responses(&got).0.get(3).map(|r| r.value() == b"after").unwrap_or(false);
        if !sent || seen != want || !value_ok {
            problems.push((
                "item-limit-pipelined".into(),
                format!("configured max item size {} bytes: set, set of limit+1 bytes, set, get, noop in one write answered {:?}, expected {:?} with the get returning the second value", l, seen, want),
            ));
        }
        c.send(&Req::flush(op::FLUSH, None).bytes());
        c.read_frames(1, patience);
    }
    // ---- one client after another: a connection that ends with bytes the server never consumed
    // (requests behind a quit, a frame cut short) is followed by a fresh connection; whichever
    // thread of whichever runtime sets that one up, it starts from nothing ----
    for round in 0..6u32 {
        let leftovers: [(&str, Vec<u8>); 3] = [
            ("requests behind quit", {
                let mut b = Req::bare(op::QUIT).opaque(0x7001).bytes();
                b.extend(Req::store(op::SET, b"leak", b"1", 0, 0, 0).opaque(0x7002).bytes());
                b.extend(Req::bare(op::NOOP).opaque(0x7003).bytes());
                b
            }),
            ("requests behind quitq", {
                let mut b = Req::bare(op::QUITQ).opaque(0x7011).bytes();
                b.extend(Req::store(op::SET, b"leak", b"2", 0, 0, 0).opaque(0x7012).bytes());
                b
            }),
            ("a set frame cut short", {
                let full = Req::store(op::SET, b"leak", b"3333333333", 0, 0, 0).opaque(0x7021).bytes();
                full[..full.len() - 4].to_vec()
            }),
        ];
        for (what, bytes) in leftovers.iter() {
            if let Ok(mut c) = Client::connect(srv.addr) {
                c.send(&Req::bare(op::NOOP).opaque(0x7000).bytes());
                c.read_frames(1, patience);
                c.send(bytes);
                c.read_frames(4, Duration::from_millis(60));
                drop(c);
            }
            std::thread::sleep(Duration::from_millis(15));
            let mut c2 = Client::connect(srv.addr)?;
            let mut b = Req::get(op::GET, b"leak").opaque(0x7101).bytes();
            b.extend(Req::bare(op::NOOP).opaque(0x7102).bytes());
            c2.send(&b);
            let got = c2.read_frames(2, patience);
            let seen: Vec<(u8, u16, u32)> = wire::split_responses(&got).0.iter().map(|r| (r.opcode, r.status, r.opaque)).collect();
            let want = vec![(op::GET, st::NOT_FOUND, 0x7101), (op::NOOP, st::OK, 0x7102)];
            if seen != want && problems.iter().all(|p| p.0 != "next-connection") {
                problems.push((
                    "next-connection".into(),
                    format!("round {}: after a connection that ended with {}, a fresh connection sent get+noop and received {:?}, expected {:?}", round, what, seen, want),
                ));
            }
            for r in wire::split_responses(&got).0 {
                transcript.extend_from_slice(&[r.opcode]);
                transcript.extend_from_slice(&r.status.to_be_bytes());
                transcript.extend_from_slice(&r.body);
            }
        }
        crate::watchdog::beat();
    }
    // ---- connections that ended in every orderly way come first: the limit probed afterwards is
    // still the configured one (slots are neither lost nor multiplied by earlier connections) ----
    for ending in [op::QUIT, op::QUITQ, op::NOOP] {
        if let Ok(mut c) = Client::connect(srv.addr) {
            c.send(&Req::bare(op::NOOP).opaque(0x6001).bytes());
            c.read_frames(1, patience);
            if ending != op::NOOP {
                c.send(&Req::bare(ending).opaque(0x6002).bytes());
                c.read_frames(1, Duration::from_millis(300));
            }
            drop(c);
        }
        std::thread::sleep(Duration::from_millis(50));
    }
    // ---- clients that give up waiting: with every slot taken, two more clients connect, send a
    // request and close without an answer; the configured limit is still the limit afterwards ----
    {
        let want = cfg.conn_limit as usize;
        let mut holders = vec![];
        for i in 0..want {
            if let Ok(mut c) = Client::connect(srv.addr) {
                c.send(&Req::bare(op::NOOP).opaque(0x6100 + i as u32).bytes());
                c.read_frames(1, patience);
                holders.push(c);
            }
        }
        for i in 0..2 {
            if let Ok(mut c) = Client::connect(srv.addr) {
                c.send(&Req::bare(op::NOOP).opaque(0x6200 + i as u32).bytes());
                std::thread::sleep(Duration::from_millis(120));
                drop(c);
            }
            std::thread::sleep(Duration::from_millis(120));
        }
        // the holders are still there: one more client must not be served
        if let Ok(mut extra) = Client::connect(srv.addr) {
            extra.send(&Req::bare(op::NOOP).opaque(0x6300).bytes());
            let got = extra.read_frames(1, Duration::from_millis(400));
            if !wire::split_responses(&got).0.is_empty() {
                problems.push((
                    "conn-limit|raised-by-abandoned-waiters".into(),
                    format!("connection limit {}: with {} connections open, two clients connected and gave up waiting; then a further client was served", want, holders.len()),
                ));
            }
        }
        drop(holders);
        std::thread::sleep(Duration::from_millis(150));
    }
    // ---- connection limit: 8 x limit connections, at most `limit` served ----
    {
        let want = cfg.conn_limit as usize;
        let mut conns = vec![];
        for i in 0..(8 * want) {
            if let Ok(mut c) = Client::connect(srv.addr) {
                c.send(&Req::bare(op::NOOP).opaque(0x700 + i as u32).bytes());
                conns.push(c);
            }
        }
        // positive expectation (`want` connections answered): wait up to 5 s; negative expectation
        // (no more than that): a further 300 ms
        let mut answered = vec![false; conns.len()];
        let t_probe = Instant::now();
        let mut reached_at: Option<Instant> = None;
        loop {
            for (i, c) in conns.iter_mut().enumerate() {
                if !answered[i] && !wire::split_responses(&c.read_frames(1, Duration::from_millis(2))).0.is_empty() {
                    answered[i] = true;
                }
            }
            let served_now = answered.iter().filter(|a| **a).count();
            if served_now >= want && reached_at.is_none() {
                reached_at = Some(Instant::now());
            }
            if let Some(r) = reached_at {
                if r.elapsed() > Duration::from_millis(300) {
                    break;
                }
            }
            if t_probe.elapsed() > Duration::from_secs(5) {
                break;
            }
            crate::watchdog::beat();
        }
        let served = answered.iter().filter(|a| **a).count();
        if served != want {
            problems.push((
                format!("connection-limit|{}", if served > want { "exceeded" } else { "under-served" }),
                format!("--connection-limit {}: {} of {} simultaneous connections were served", want, served, 8 * want),
            ));
        }
        drop(conns);
        std::thread::sleep(Duration::from_millis(100));
    }
    crate::watchdog::beat();
    // ---- real time: ttl 4 hits at once and after 2.3 s, misses after 5.6 s (a server clock that
    // runs fast or slow in some configuration shows here) ----
    {
        let mut c = Client::connect(srv.addr)?;
        let t_set = Instant::now();
        c.send(&Req::store(op::SET, b"T", b"tick", 0, 4, 0).opaque(1).bytes());
        c.read_frames(1, patience);
        c.send(&Req::get(op::GET, b"T").opaque(2).bytes());
        let hit = wire::split_responses(&c.read_frames(1, patience)).0;
        std::thread::sleep(Duration::from_millis(2300));
        c.send(&Req::get(op::GET, b"T").opaque(3).bytes());
        let mid = wire::split_responses(&c.read_frames(1, patience)).0;
        let mid_at = t_set.elapsed();
        crate::watchdog::beat();
        std::thread::sleep(Duration::from_millis(3300));
        c.send(&Req::get(op::GET, b"T").opaque(4).bytes());
        let miss = wire::split_responses(&c.read_frames(1, patience)).0;
        // a stretched sleep (overloaded machine) makes the middle probe inconclusive, not wrong
        let mid_ok = mid_at > Duration::from_millis(3400) || mid.first().map(|r| r.status) == Some(st::OK);
        if hit.first().map(|r| r.status) != Some(st::OK) || !mid_ok || miss.first().map(|r| r.status) != Some(st::NOT_FOUND) {
            problems.push((
                "real-time-ttl".into(),
                format!(
                    "set ttl=4: get at once {:?}, get after {:.1} s {:?}, get after {:.1} s {:?} (expected hit, hit, miss)",
                    hit.first().map(|r| r.status),
                    mid_at.as_secs_f64(),
                    mid.first().map(|r| r.status),
                    t_set.elapsed().as_secs_f64(),
                    miss.first().map(|r| r.status)
                ),
            ));
        }
    }
    Ok(ConfigResult { transcript, problems, programs: progs.len() })
}

pub fn grid(tier: Tier) -> Vec<Config> {
    let mut v = vec![];
    let mut i = 0usize;
    for runtime in ["current-thread", "multi-thread"] {
        for threads in [1usize, 2, 8] {
            for policy in ["none", "random"] {
                for port in [11211u16, 24680] {
                    for (item_size, item_bytes) in [("1KiB", 1024u32), ("1MiB", 1 << 20), ("2MiB", 2 << 20)] {
                        for conn_limit in [1u32, 3] {
                            if item_bytes > (1 << 20) {
                                // a limit above the default: two configurations in the quick tier
                                let quick_pick = (runtime == "current-thread" && threads == 1 && policy == "none" && port == 11211 && conn_limit == 3)
                                    || (runtime == "multi-thread" && threads == 2 && policy == "random" && port == 24680 && conn_limit == 1);
                                if tier == Tier::Thorough || quick_pick {
                                    v.push(Config { runtime, threads, policy, port, item_size, item_bytes, conn_limit });
                                }
                                continue;
                            }
                            i += 1;
                            if tier == Tier::Quick {
                                // covering subset: every value of every parameter appears, pairwise mixed
                                let pick = matches!(i, 1 | 14 | 20 | 31 | 41 | 54 | 75 | 96);
                                if !pick {
                                    continue;
                                }
                            }
                            v.push(Config { runtime, threads, policy, port, item_size, item_bytes, conn_limit });
                        }
                    }
                }
            }
        }
    }
    v
}

/// In-process differential part: eviction policy none vs random with an unreachable limit, every
/// history of the C01 alphabet up to the depth.
pub fn policy_differential(tier: Tier, threads: usize) -> CheckOutcome {
    let t0 = Instant::now();
    // the first alphabet of every property that does not need an eviction policy of its own
    let mut violations: Vec<Violation> = vec![];
    let (mut executions, mut states, mut transitions) = (0u64, 0u64, 0u64);
    let mut capped: Option<String> = None;
    let mut mach: Option<String> = None;
    let mut parts: Vec<serde_json::Value> = vec![];
    for prop in ["C01", "C02", "C06", "C07", "C08"] {
        let mut a = props::seq_cfgs(prop, tier).remove(0);
        a.sut.policy = crate::sut::Policy::None;
        a.depth = if tier == Tier::Quick { a.depth.saturating_sub(1).max(3) } else { a.depth.saturating_sub(2).max(4) }.min(6);
        let mut b = a.clone();
        b.sut.policy = crate::sut::Policy::Random(1 << 40);
        b.name = format!("{}/random-unreached", a.name);
        let rep = crate::pair::explore_diff(&a, &b, threads);
        executions += rep.executions;
        states += rep.states;
        transitions += rep.transitions;
        if rep.capped.is_some() {
            capped = rep.capped.clone();
        }
        if rep.machinery_error.is_some() {
            mach = rep.machinery_error.clone();
        }
        parts.push(json!({"alphabet": a.name, "depth_completed": rep.depth_reached, "states": rep.states, "transitions": rep.transitions, "capped": rep.capped}));
        for f in rep.found.iter() {
            if violations.iter().any(|v| v.signature == f.signature) {
                continue;
            }
            violations.push(Violation {
                signature: f.signature.clone(),
                what: format!("eviction policy none vs random (limit 2^40, never reached): {}  after [{}] (alphabet of {})", f.detail, f.hist_text.join(" ; "), a.name),
                replay: json!({"engine": "c20-differential", "history_text": f.hist_text}),
            });
        }
    }
    CheckOutcome {
        property: "C20".into(),
        tier: if tier == Tier::Quick { "quick".into() } else { "thorough".into() },
        level: "exploration",
        coverage: json!({
            "evaluations": executions,
            "distinct_nontrivial": states,
            "states": states,
            "transitions": transitions,
            "traces_validated_against_impl": executions,
            "alphabets": parts,
            "capped": capped,
            "exhaustive": capped.is_none(),
            "rule": "BFS over all command histories of the first alphabets of C01, C02, C06, C07 and C08 (every command kind incl. stores, deletes and counters with matching / stale / arbitrary CAS, flushes, clock steps) up to the depth, applied in-process to a store without eviction policy and to one with the random policy and a limit of 2^40: byte-identical responses and equal stores after every command",
        }),
        assumptions: vec![],
        violations,
        wall_s: t0.elapsed().as_secs_f64(),
        machinery_error: mach,
    }
}

pub fn check(tier: Tier) -> CheckOutcome {
    let t0 = Instant::now();
    let progs = programs(if tier == Tier::Quick { 2 } else { 3 });
    let cfgs = grid(tier);
    let mut results: Vec<Option<Result<ConfigResult, String>>> = (0..cfgs.len()).map(|_| None).collect();
    // the real binary when the entry script built it (always for `run check C20`), else `mc serve`
    let memcrsd: Option<String> = std::env::var("MEMCRSD_BIN").ok().filter(|p| std::path::Path::new(p).exists());
    let memcrsd_ref: Option<&str> = memcrsd.as_deref();
    // batches of configurations in parallel (each has its own loopback address)
    let batch = 16;
    for (bi, chunk) in cfgs.chunks(batch).enumerate() {
        let rs: Vec<Result<ConfigResult, String>> = std::thread::scope(|s| {
            let hs: Vec<_> = chunk
                .iter()
                .enumerate()
                .map(|(i, c)| {
                    let progs = &progs;
                    s.spawn(move || {
                        crate::watchdog::working_on(format!("C20 {}", c.name()));
                        let r = drive(c, bi * batch + i, progs, memcrsd_ref);
                        crate::watchdog::idle();
                        r
                    })
                })
                .collect();
            hs.into_iter().map(|h| h.join().unwrap_or_else(|_| Err("worker panicked".into()))).collect()
        });
        for (i, r) in rs.into_iter().enumerate() {
            results[bi * batch + i] = Some(r);
        }
        crate::watchdog::beat();
    }
    let mut found: BTreeMap<String, Violation> = BTreeMap::new();
    let mut mach = None;
    let mut reference: Option<(String, Vec<u8>)> = None;
    let mut programs_run = 0usize;
    for (c, r) in cfgs.iter().zip(results.into_iter()) {
        match r.unwrap() {
            Err(e) => mach = Some(format!("{}: {}", c.name(), e)),
            Ok(res) => {
                programs_run += res.programs;
                for (sig, what) in res.problems {
                    let sig = if sig.starts_with("connection-limit") { format!("{}|runtime={} threads{}", sig, c.runtime, if c.threads > 1 { ">1" } else { "=1" }) } else { sig };
                    found.entry(sig.clone()).or_insert(Violation {
                        signature: sig,
                        what: format!("[{}] {}", c.name(), what),
                        replay: json!({"engine": "c20", "config": c.name()}),
                    });
                }
                match &reference {
                    None => reference = Some((c.name(), res.transcript)),
                    Some((rn, rt)) => {
                        if *rt != res.transcript {
                            let sig = format!("transcript-differs|runtime={} policy={}", c.runtime, c.policy);
                            found.entry(sig.clone()).or_insert(Violation {
                                signature: sig,
                                what: format!("[{}] the byte transcript of the common programs differs from that of [{}]", c.name(), rn),
                                replay: json!({"engine": "c20", "config": c.name()}),
                            });
                        }
                    }
                }
            }
        }
    }
    let samples: Vec<serde_json::Value> = cfgs.iter().take(3).map(|c| json!(c.name())).chain(progs.iter().take(2).map(|p| json!(p.0))).collect();
    CheckOutcome {
        property: "C20".into(),
        tier: if tier == Tier::Quick { "quick".into() } else { "thorough".into() },
        level: "exploration",
        coverage: json!({
            "evaluations": cfgs.len() * (progs.len() + 3),
            "distinct_nontrivial": cfgs.len(),
            "configurations": cfgs.len(),
            "server_binary": if memcrsd.is_some() { "memcrsd built from /repo's working tree with the verification feature off (its own main)" } else { "mc serve: cli::parser::parse + create_memcrs_server + block_on(timer.run()), the statements of memcrsd's main" },
            "programs_per_configuration": progs.len(),
            "programs_run": programs_run,
            "samples": samples,
            "exhaustive": tier == Tier::Thorough,
            "rule": "grid runtime-type {current-thread, multi-thread} x threads {1,2,8} x eviction {none, random 64MiB} x port {11211, 24680} x max-item-size {1KiB, 1MiB} x connection-limit {1,3} (quick: a covering subset of 8; thorough: all 96); each configuration is a real server process started through cli::parser::parse + runtime_builder::create_memcrs_server; driven with the spanning-tree histories of the C01/C07 explorations as one pipelined connection; transcripts compared byte-for-byte across configurations and (CAS-stripped) with the in-process run; a 1500-item population read back and flushed; limit probes; a real-time TTL probe (hit before, miss after the TTL in real seconds)",
        }),
        assumptions: vec![
            "timing enters only as patience: positive expectations wait up to 5 s, 'not served' waits 300 ms".into(),
            "single-connection programs: cross-connection behaviour under multi-thread runtimes is covered by E1, not here".into(),
        ],
        violations: found.into_values().collect(),
        wall_s: t0.elapsed().as_secs_f64(),
        machinery_error: mach,
    }
}
