//! C18: faults on one connection are contained - every request completely sent before the fault is
//! executed exactly once and in order, the cut/invalid one and everything after it is not, the
//! server keeps serving, an observer connection is unaffected.

use crate::check_c09::par_map;
use crate::net::{NetCfg, NetWorld};
use crate::props::Tier;
use crate::report::{CheckOutcome, Violation};
use crate::sut::{Policy, SutCfg, World};
use crate::wire::{self, op, st, Req};
use serde_json::json;
use std::collections::BTreeMap;
use std::time::Instant;

#[derive(Clone, Copy, Debug, PartialEq, Eq, PartialOrd, Ord)]
enum Fault {
    Close,
    HalfClose,
    /// abortive reset after the server has processed what was sent
    ResetSettled,
    /// abortive reset immediately after the send, before the server ran
    ResetImmediate,
    /// the whole stream is sent, the request containing the offset has its magic byte corrupted
    CorruptMagic,
    /// prefix sent, then silence until the idle timeout
    Silence,
    /// connect, send and reset before the server has even accepted the connection
    ResetBeforeAccept,
    /// send, then half-close at once: the FIN is already there when the server first runs
    HalfCloseImmediate,
    /// prefix sent, then silence - and *while* the client is silent (no time has passed yet) another
    /// client connects: the server keeps serving means now, not after the idle timeout
    SilenceMeanwhile,
    /// the whole stream is sent, the opcode byte of the request containing the offset is corrupted
    /// to flush / flushq (0x08 / 0x18): with the request's key, extras and value behind such a header
    /// the frame is not a valid flush, so it is invalid bytes like any other corruption
    CorruptOpcodeFlush,
    CorruptOpcodeFlushQ,
}
const FAULTS: [Fault; 11] = [
    Fault::Close,
    Fault::HalfClose,
    Fault::ResetSettled,
    Fault::ResetImmediate,
    Fault::CorruptMagic,
    Fault::Silence,
    Fault::ResetBeforeAccept,
    Fault::HalfCloseImmediate,
    Fault::SilenceMeanwhile,
    Fault::CorruptOpcodeFlush,
    Fault::CorruptOpcodeFlushQ,
];

fn streams() -> Vec<(String, Vec<Req>)> {
    let inc = |k: &[u8], o: u32| Req::delta(op::INCR, k, 1, 1, 0, 0).opaque(o);
    vec![
        (
            "counters+sets".to_string(),
            vec![
                inc(b"a", 1),
                Req::store(op::SET, b"b", b"x", 5, 0, 0).opaque(2),
                inc(b"a", 3),
                inc(b"c", 4),
                Req::store(op::SETQ, b"b", b"y", 6, 0, 0).opaque(5),
                inc(b"a", 6),
            ],
        ),
        (
            "quiet+append".to_string(),
            vec![
                Req::store(op::ADD, b"b", b"1", 0, 0, 0).opaque(1),
                Req::concat(op::APPENDQ, b"b", b"2", 0).opaque(2),
                Req::delta(op::INCRQ, b"a", 2, 10, 0, 0).opaque(3),
                Req::concat(op::APPEND, b"b", b"3", 0).opaque(4),
                Req::delete(op::DELETEQ, b"c", 0).opaque(5),
                Req::delta(op::DECR, b"a", 1, 10, 0, 0).opaque(6),
            ],
        ),
        (
            // key-only requests (get, getk, delete) between stores: one corrupted bit in their opcode
            // must not turn them into anything that is executed
            "reads+deletes".to_string(),
            vec![
                Req::store(op::SET, b"a", b"1", 1, 0, 0).opaque(1),
                Req::get(op::GET, b"a").opaque(2),
                Req::store(op::SET, b"b", b"2", 2, 0, 0).opaque(3),
                Req::get(op::GETK, b"b").opaque(4),
                Req::delete(op::DELETE, b"zz", 0).opaque(5),
                Req::store(op::SET, b"c", b"3", 3, 0, 0).opaque(6),
            ],
        ),
        (
            // an oversized request (1 KiB limit) in the middle: its body is skipped, not parsed
            "with-oversized".to_string(),
            vec![
                Req::delta(op::INCR, b"a", 1, 1, 0, 0).opaque(1),
                Req::store(op::SET, b"big", &vec![b'x'; 1024 + 300], 0, 0, 0).opaque(2),
                Req::delta(op::INCR, b"a", 1, 1, 0, 0).opaque(3),
                Req::store(op::SET, b"b", b"x", 5, 0, 0).opaque(4),
            ],
        ),
    ]
}

type Content = Vec<(Vec<u8>, Vec<u8>)>;

/// store content after executing exactly the first j requests, for every j (in-process reference)
fn reference(reqs: &[Req]) -> (Vec<Content>, Vec<usize>) {
    let mut contents = vec![];
    let mut resp_counts = vec![];
    for j in 0..=reqs.len() {
        let world = World::new(SutCfg { item_limit: 1024, policy: Policy::None });
        let mut conn = world.conn();
        let mut n = 0;
        for r in &reqs[..j] {
            let out = conn.exec(&r.bytes());
            n += wire::split_responses(&out.out).0.len();
        }
        contents.push(world.dump().into_iter().map(|d| (d.key, d.value)).collect());
        resp_counts.push(n);
    }
    (contents, resp_counts)
}

struct Res {
    viol: Option<(String, String)>,
    steps: u64,
}

fn run_case(sname: &str, reqs: &[Req], refs: &(Vec<Content>, Vec<usize>), offset: usize, fault: Fault) -> Result<Res, String> {
    let mut bytes: Vec<u8> = vec![];
    let mut ends: Vec<usize> = vec![];
    for r in reqs {
        bytes.extend(r.bytes());
        ends.push(bytes.len());
    }
    // requests completely contained in bytes[..offset]
    let complete = ends.iter().filter(|e| **e <= offset).count();
    // the cut falls inside the body of an oversized request: its 0x03 may or may not be out already
    let in_oversized_body = {
        let victim = ends.iter().position(|e| *e > offset);
        match victim {
            Some(v) => {
                let start = if v == 0 { 0 } else { ends[v - 1] };
                reqs[v].body_length() > 1024 && offset >= start + 24
            }
            None => false,
        }
    };
    // silence: the limit leaves room for the observer and the faulty connection only, so that
    // "the server keeps serving" has a meaning for a connection that is never dropped
    let w = NetWorld::new(if fault == Fault::Silence { NetCfg { conn_limit: 2, ..NetCfg::default() } } else { NetCfg::default() })?;
    let mut obs = w.connect()?;
    if let Err(e) = obs.step(&w, &Req::store(op::SET, b"obs", b"mine", 9, 0, 0).opaque(0xeb1).bytes()) {
        return Ok(Res {
            viol: Some(("observer|connection-lost".into(), format!("stream {} cut at {} fault {:?}: a fresh observer connection was dropped by the server: {}", sname, offset, fault, e))),
            steps: 1,
        });
    }
    let mut c = if fault == Fault::ResetBeforeAccept { w.connect_nosettle()? } else { w.connect()? };
    let mut steps = 2u64;
    let name = format!("stream {} cut at byte {} of {} ({} complete requests) fault {:?}", sname, offset, bytes.len(), complete, fault);
    let mut expected_js: Vec<usize> = vec![complete];
    let mut silent_still_open = false;
    match fault {
        Fault::Close => {
            let _ = c.step(&w, &bytes[..offset]);
            c.close(&w);
        }
        Fault::HalfClose => {
            let _ = c.step(&w, &bytes[..offset]);
            c.shutdown_write(&w);
        }
        Fault::ResetSettled => {
            let _ = c.step(&w, &bytes[..offset]);
            c.abort(&w);
            expected_js = (0..=complete).collect();
        }
        Fault::HalfCloseImmediate => {
            if offset > 0 {
                let _ = c.send(&w, &bytes[..offset]);
            }
            c.shutdown_write(&w);
        }
        Fault::ResetBeforeAccept => {
            if offset > 0 {
                let _ = c.send(&w, &bytes[..offset]);
            }
            c.abort(&w);
            expected_js = (0..=complete).collect();
        }
        Fault::ResetImmediate => {
            if offset > 0 {
                let _ = c.send(&w, &bytes[..offset]);
            }
            c.abort(&w);
            expected_js = (0..=complete).collect();
        }
        Fault::CorruptMagic => {
            // the request containing the offset (or the one starting at it) is corrupted
            let victim = ends.iter().position(|e| *e > offset).unwrap_or(reqs.len() - 1);
            let start = if victim == 0 { 0 } else { ends[victim - 1] };
            let mut b = bytes.clone();
            b[start] = 0x13;
            let _ = c.step(&w, &b);
            expected_js = vec![victim];
        }
        Fault::CorruptOpcodeFlush | Fault::CorruptOpcodeFlushQ => {
            let victim = ends.iter().position(|e| *e > offset).unwrap_or(reqs.len() - 1);
            let start = if victim == 0 { 0 } else { ends[victim - 1] };
            let mut b = bytes.clone();
            if reqs[victim].key.is_empty() || reqs[victim].body_length() > 1024 {
                // a request without a key would become a well-formed flush, an oversized one an
                // oversized flush (answered 'too large' and skipped, as C13 demands of every
                // opcode): corrupt the magic instead
                b[start] = 0x13;
            } else {
                b[start + 1] = if fault == Fault::CorruptOpcodeFlush { 0x08 } else { 0x18 };
            }
            let _ = c.step(&w, &b);
            expected_js = vec![victim];
        }
        Fault::SilenceMeanwhile => {
            let _ = c.step(&w, &bytes[..offset]);
            let mut third = w.connect()?;
            let io = third.step(&w, &Req::bare(op::NOOP).opaque(0xf6).bytes());
            if io.is_err() || wire::split_responses(&third.got).0.len() != 1 {
                return Ok(Res {
                    viol: Some((
                        "server|not-serving-meanwhile".into(),
                        format!("{}: while that client is silent (no time has passed) another client connected, sent a noop and was not answered", name),
                    )),
                    steps: 3,
                });
            }
            third.close(&w);
            c.pump();
        }
        Fault::Silence => {
            let _ = c.step(&w, &bytes[..offset]);
            w.advance(30);
            // the observer stays active
            let _ = obs.step(&w, &Req::bare(op::NOOP).opaque(0xeb2).bytes());
            w.advance(31);
            c.pump();
            silent_still_open = !c.eof;
        }
    }
    steps += 2;
    w.settle();
    c.pump();
    // what the faulty client received (when it could still read)
    let (resps, residue) = wire::split_responses(&c.got);
    let mut problem: Option<(String, String)> = None;
    if matches!(fault, Fault::HalfClose | Fault::HalfCloseImmediate | Fault::Silence | Fault::SilenceMeanwhile | Fault::CorruptMagic | Fault::CorruptOpcodeFlush | Fault::CorruptOpcodeFlushQ) {
        let j = expected_js[0];
        if residue != 0 {
            problem = Some(("responses|residue".into(), format!("{} stray bytes in the response stream", residue)));
        } else if resps.len() != refs.1[j] && !(in_oversized_body && resps.len() == refs.1[j] + 1) {
            problem = Some((
                format!("responses|{:?}", fault),
                format!("{} responses received, expected {} (one per loud completed request)", resps.len(), refs.1[j]),
            ));
        }
        if !c.eof && (matches!(fault, Fault::CorruptMagic | Fault::CorruptOpcodeFlush | Fault::CorruptOpcodeFlushQ) || fault == Fault::HalfClose || fault == Fault::HalfCloseImmediate) {
            problem = problem.or(Some((format!("not-closed|{:?}", fault), "the server did not close the connection".into())));
        }
    }
    // the observer: own item intact, own requests answered, sees exactly the completed prefix
    let got0 = obs.got.len();
    if let Err(e) = obs.step(&w, &Req::get(op::GET, b"obs").opaque(0xeb3).bytes()) {
        problem = problem.or(Some(("observer|connection-lost".into(), format!("the observer's connection failed: {}", e))));
    }
    let (or, _) = wire::split_responses(&obs.got[got0..]);
    match or.first() {
        Some(r) if r.status == st::OK && r.value() == b"mine" && r.opaque == 0xeb3 => {}
        other => {
            problem = problem.or(Some((
                "observer|own-item".into(),
                format!("observer's get of its own item answered {:?}", other.map(|r| r.short())),
            )))
        }
    }
    let mut content: Content = w.dump().into_iter().map(|d| (d.key, d.value)).filter(|(k, _)| k != b"obs").collect();
    content.sort();
    let allowed: Vec<Content> = expected_js
        .iter()
        .map(|j| {
            let mut c = refs.0[*j].clone();
            c.sort();
            c
        })
        .collect();
    if problem.is_none() && !allowed.contains(&content) {
        let show = |c: &Content| c.iter().map(|(k, v)| format!("{}={}", wire::show(k), wire::show(v))).collect::<Vec<_>>().join(",");
        problem = Some((
            format!("effects|{:?}", fault),
            format!(
                "store holds [{}] but executing exactly the {} completed request(s) once and in order gives [{}]",
                show(&content),
                expected_js.last().unwrap(),
                show(allowed.last().unwrap())
            ),
        ));
    }
    // a fresh connection is served
    let mut fresh = w.connect()?;
    let fresh_io = fresh.step(&w, &Req::bare(op::NOOP).opaque(0xf5).bytes());
    if fresh_io.is_err() || wire::split_responses(&fresh.got).0.len() != 1 || !w.server_alive() {
        problem = problem.or(Some((
            "server|not-serving".into(),
            format!(
                "a fresh connection is not served after the fault{}",
                if silent_still_open { " (connection limit 2: the silent connection is still open after 61 s and keeps its slot)" } else { "" }
            ),
        )));
    }
    Ok(Res { viol: problem.map(|(s, wh)| (s, format!("{}: {}", name, wh))), steps: steps + 2 })
}

pub fn check(tier: Tier, threads: usize) -> CheckOutcome {
    let t0 = Instant::now();
    let ss = streams();
    let refs: Vec<(Vec<Content>, Vec<usize>)> = ss.iter().map(|(_, r)| reference(r)).collect();
    let mut cases: Vec<(usize, usize, Fault)> = vec![];
    for (si, (_, reqs)) in ss.iter().enumerate() {
        if tier == Tier::Quick && si == 1 {
            continue;
        }
        let len: usize = reqs.iter().map(|r| r.bytes().len()).sum();
        for off in 0..=len {
            for f in FAULTS {
                cases.push((si, off, f));
            }
        }
    }
    crate::watchdog::working_on("C18 fault points".into());
    let results = par_map(&cases, threads, |_, (si, off, f)| run_case(&ss[*si].0, &ss[*si].1, &refs[*si], *off, *f));
    let mut found: BTreeMap<String, Violation> = BTreeMap::new();
    let mut mach = None;
    let mut steps = 0u64;
    for ((si, off, f), r) in cases.iter().zip(results.iter()) {
        match r {
            Err(e) if e.starts_with("connect:") => {
                let sig = "server|not-accepting".to_string();
                found.entry(sig.clone()).or_insert(Violation {
                    signature: sig,
                    what: format!("stream {} cut at {} fault {:?}: the server stopped accepting connections ({})", ss[*si].0, off, f, e),
                    replay: json!({"engine": "c18", "stream": ss[*si].0, "offset": off, "fault": format!("{:?}", f)}),
                });
            }
            Err(e) => mach = Some(format!("{} offset {} {:?}: {}", ss[*si].0, off, f, e)),
            Ok(res) => {
                steps += res.steps;
                if let Some((sig, what)) = &res.viol {
                    found.entry(sig.clone()).or_insert(Violation {
                        signature: sig.clone(),
                        what: what.clone(),
                        replay: json!({"engine": "c18", "stream": ss[*si].0, "offset": off, "fault": format!("{:?}", f)}),
                    });
                }
            }
        }
    }
    let samples: Vec<serde_json::Value> = cases
        .iter()
        .step_by((cases.len() / 5).max(1))
        .take(5)
        .map(|(si, off, f)| json!({"stream": ss[*si].0, "cut_offset": off, "fault": format!("{:?}", f)}))
        .collect();
    CheckOutcome {
        property: "C18".into(),
        tier: if tier == Tier::Quick { "quick".into() } else { "thorough".into() },
        level: "fault_enumeration",
        coverage: json!({
            "evaluations": cases.len(),
            "distinct_nontrivial": cases.len(),
            "states": cases.len(),
            "transitions": steps,
            "traces_validated_against_impl": cases.len(),
            "fault_kinds": FAULTS.iter().map(|f| format!("{:?}", f)).collect::<Vec<_>>(),
            "streams": ss.iter().map(|(n, r)| json!({"name": n, "requests": r.len(), "bytes": r.iter().map(|x| x.bytes().len()).sum::<usize>()})).collect::<Vec<_>>(),
            "samples": samples,
            "exhaustive": true,
            "rule": "every byte offset 0..len of each pipelined stream x 6 fault kinds (close, half-close, reset after / before the server ran, corrupted magic of the request containing the offset, silence until the virtual idle timeout) with an observer connection open throughout; the store content must equal an in-process execution of exactly the completed prefix (after a reset: of some prefix of it)",
        }),
        assumptions: vec!["tokio paused-clock quiescence; Linux loopback semantics of close/RST".into()],
        violations: found.into_values().collect(),
        wall_s: t0.elapsed().as_secs_f64(),
        machinery_error: mach,
    }
}

pub fn replay(v: &serde_json::Value) -> Result<Option<String>, String> {
    let ss = streams();
    let si = ss.iter().position(|(n, _)| Some(n.as_str()) == v["stream"].as_str()).ok_or("unknown stream")?;
    let off = v["offset"].as_u64().unwrap_or(0) as usize;
    let fault = FAULTS.iter().copied().find(|f| Some(format!("{:?}", f).as_str()) == v["fault"].as_str()).ok_or("unknown fault")?;
    let refs = reference(&ss[si].1);
    let a = run_case(&ss[si].0, &ss[si].1, &refs, off, fault)?.viol;
    let b = run_case(&ss[si].0, &ss[si].1, &refs, off, fault)?.viol;
    if a != b {
        return Err("two replays of the same scenario differ".into());
    }
    Ok(a.map(|(s, w)| format!("{}: {}", s, w)))
}
