//! WireSut: the system under test at wire level, in-process.
//! request bytes -> MemcacheBinaryCodec::decode (real) -> BinaryHandler::handle_request (real)
//! -> encode_message (real) -> response bytes.

#![allow(dead_code)]

use bytes::BytesMut;
use memcrs::cache::cache::Cache;
use memcrs::memcache::random_policy::RandomPolicy;
use memcrs::memcache::store::MemcStore;
use memcrs::memcache_server::handler::BinaryHandler;
use memcrs::memory_store::store::MemoryStore;
use memcrs::protocol::binary_codec::{BinaryRequest, MemcacheBinaryCodec};
use memcrs::server::timer::Timer;
use std::cell::{Cell, RefCell};
use std::panic::{self, AssertUnwindSafe};
use std::sync::atomic::{AtomicU64, Ordering};
use std::sync::{Arc, Once};
use tokio_util::codec::Decoder;

/// Harness-owned clock (the `Timer` seam is a public trait of memcrs).
#[derive(Default)]
pub struct Clock(AtomicU64);
impl Clock {
    pub fn now(&self) -> u64 {
        self.0.load(Ordering::SeqCst)
    }
    pub fn set(&self, t: u64) {
        self.0.store(t, Ordering::SeqCst)
    }
    pub fn advance(&self, d: u64) {
        self.0.fetch_add(d, Ordering::SeqCst);
    }
}
impl Timer for Clock {
    fn timestamp(&self) -> u64 {
        self.now()
    }
}

#[derive(Clone, Copy, Debug, PartialEq, Eq, Hash)]
pub enum Policy {
    None,
    Random(u64),
}

#[derive(Clone, Copy, Debug)]
pub struct SutCfg {
    pub item_limit: u32,
    pub policy: Policy,
}

#[derive(Clone, Debug, PartialEq, Eq, Hash)]
pub struct DumpItem {
    pub key: Vec<u8>,
    pub value: Vec<u8>,
    pub ts: u64,
    pub cas: u64,
    pub flags: u32,
    pub ttl: u32,
}
impl DumpItem {
    /// size of the record as the store accounts it (Record::len = 24-byte header + value)
    pub fn size(&self) -> u64 {
        24 + self.value.len() as u64
    }
    /// effective expiry instant (u64::MAX = never)
    pub fn expiry(&self) -> u64 {
        if self.ttl == 0 {
            u64::MAX
        } else {
            self.ts + self.ttl as u64
        }
    }
}

/// The shared part: clock, stores.  Several `Conn`s (one per client) can be opened on it.
pub struct World {
    pub cfg: SutCfg,
    pub clock: Arc<Clock>,
    pub mem: Arc<MemoryStore>,
    pub pol: Option<Arc<RandomPolicy>>,
    pub store: Arc<MemcStore>,
}

impl World {
    pub fn new(cfg: SutCfg) -> World {
        init_hooks();
        let clock = Arc::new(Clock::default());
        let mem = Arc::new(MemoryStore::new(clock.clone()));
        let (pol, cache): (Option<Arc<RandomPolicy>>, Arc<dyn Cache + Send + Sync>) = match cfg.policy {
            Policy::None => (None, mem.clone()),
            Policy::Random(l) => {
                let p = Arc::new(RandomPolicy::new(mem.clone(), l));
                (Some(p.clone()), p)
            }
        };
        let store = Arc::new(MemcStore::new(cache));
        World { cfg, clock, mem, pol, store }
    }
    pub fn conn(&self) -> Conn {
        Conn {
            handler: BinaryHandler::new(self.store.clone()),
            codec: MemcacheBinaryCodec::new(self.cfg.item_limit),
            buf: BytesMut::with_capacity(4096),
            skip: 0,
            closed: false,
        }
    }
    pub fn dump(&self) -> Vec<DumpItem> {
        self.mem
            .verif_dump()
            .into_iter()
            .map(|i| DumpItem {
                key: i.key.to_vec(),
                value: i.value.to_vec(),
                ts: i.timestamp,
                cas: i.cas,
                flags: i.flags,
                ttl: i.time_to_live,
            })
            .collect()
    }
    pub fn cas_counter(&self) -> u64 {
        self.mem.verif_cas_counter()
    }
    pub fn usage(&self) -> Option<u64> {
        self.pol.as_ref().map(|p| p.verif_usage())
    }
}

/// One client's decoder + handler (what `Client`/`MemcacheBinaryConnection` hold per connection).
pub struct Conn {
    pub handler: BinaryHandler,
    pub codec: MemcacheBinaryCodec,
    pub buf: BytesMut,
    /// bytes of an oversized body still to be discarded (the connection layer's job)
    skip: usize,
    pub closed: bool,
}

#[derive(Clone, Debug, Default, PartialEq, Eq)]
pub struct ExecOut {
    /// response bytes written
    pub out: Vec<u8>,
    /// number of requests decoded and handled
    pub handled: usize,
    /// decoder returned an error (the connection would be closed)
    pub decode_err: Option<String>,
    /// a panic escaped decode/handle/encode
    pub panic: Option<String>,
    /// quit / quitq executed
    pub quit: bool,
}

impl Conn {
    /// Feeds bytes and runs decode -> handle -> encode until the decoder wants more bytes.
    pub fn exec(&mut self, bytes: &[u8]) -> ExecOut {
        let mut o = ExecOut::default();
        if self.closed {
            return o;
        }
        let mut bytes = bytes;
        if self.skip > 0 {
            let n = self.skip.min(bytes.len());
            bytes = &bytes[n..];
            self.skip -= n;
        }
        self.buf.extend_from_slice(bytes);
        let r = catch(AssertUnwindSafe(|| {
            let mut guard = 0usize;
            loop {
                guard += 1;
                if guard > 100_000 {
                    o.decode_err = Some("no progress".into());
                    self.closed = true;
                    break;
                }
                let before = self.buf.len();
                // body length announced by the header at the front of the buffer (independent parse)
                let peek = if before >= 24 {
                    u32::from_be_bytes([self.buf[8], self.buf[9], self.buf[10], self.buf[11]]) as usize
                } else {
                    0
                };
                match self.codec.decode(&mut self.buf) {
                    Ok(Some(req)) => {
                        if let BinaryRequest::ItemTooLarge(_) = req {
                            // what a correct connection layer does: drop the announced body
                            let hdr = peek;
                            let have = self.buf.len().min(hdr);
                            let _ = self.buf.split_to(have);
                            self.skip = hdr - have;
                        }
                        let quitq = matches!(req, BinaryRequest::QuitQuietly(_));
                        let quit = matches!(req, BinaryRequest::Quit(_));
                        o.handled += 1;
                        if quitq {
                            o.quit = true;
                            self.closed = true;
                            break;
                        }
                        if let Some(resp) = self.handler.handle_request(req) {
                            let msg = self.codec.encode_message(&resp);
                            o.out.extend_from_slice(msg.verif_bytes());
                        }
                        if quit {
                            o.quit = true;
                            self.closed = true;
                            break;
                        }
                    }
                    Ok(None) => {
                        if self.buf.len() == before {
                            break;
                        }
                        // consumed something (header) without producing a request: call again only
                        // if bytes remain that could complete it
                        if self.buf.is_empty() {
                            break;
                        }
                        // decoder returned None after consuming: it waits for more bytes
                        break;
                    }
                    Err(e) => {
                        o.decode_err = Some(e.to_string());
                        self.closed = true;
                        break;
                    }
                }
            }
        }));
        if let Err(msg) = r {
            o.panic = Some(msg);
            self.closed = true;
        }
        o
    }
}

// ---- panic capture ------------------------------------------------------------------------

thread_local! {
    static LAST_PANIC: RefCell<Option<String>> = const { RefCell::new(None) };
    static QUIET: Cell<bool> = const { Cell::new(false) };
    static THREAD_PANICS: Cell<u64> = const { Cell::new(0) };
}

/// number of panics raised on this OS thread so far
pub fn thread_panics() -> u64 {
    THREAD_PANICS.with(|c| c.get())
}
static HOOK: Once = Once::new();
pub static PANICS: AtomicU64 = AtomicU64::new(0);

fn hook_fn(info: &panic::PanicHookInfo<'_>) {
    PANICS.fetch_add(1, Ordering::SeqCst);
    THREAD_PANICS.with(|c| c.set(c.get() + 1));
    let loc = info.location().map(|l| format!("{}:{}", l.file(), l.line())).unwrap_or_default();
    let msg = if let Some(s) = info.payload().downcast_ref::<&str>() {
        s.to_string()
    } else if let Some(s) = info.payload().downcast_ref::<String>() {
        s.clone()
    } else {
        "panic".to_string()
    };
    let text = format!("{} @ {}", msg, loc);
    if !QUIET.with(|q| q.get()) || std::env::var("MC_LOUD").is_ok() {
        eprintln!("panic: {}", text);
    }
    // breadcrumb for the supervising process: should this panic end in a process abort (a guard
    // that aborts on unwinding, a panic while panicking), the parent learns where and in what
    if let Some(path) = crumb_path() {
        let desc = crate::watchdog::current().0;
        let seq = SEQ_CRUMB.with(|c| c.try_borrow().map(|s| s.clone()).unwrap_or_default());
        let body = serde_json::json!({"panic": text, "doing": desc, "seq": seq});
        // one file per thread, written under another name and renamed: several workers may panic at
        // the same instant, and the process may be killed while one of them is still writing
        let tid: String = format!("{:?}", std::thread::current().id()).chars().filter(|c| c.is_ascii_digit()).collect();
        let fin = format!("{}.{}", path, tid);
        let tmp = format!("{}.tmp", fin);
        if std::fs::write(&tmp, body.to_string()).is_ok() {
            let _ = std::fs::rename(&tmp, &fin);
        }
    }
    LAST_PANIC.with(|p| *p.borrow_mut() = Some(text));
}

thread_local! {
    static SEQ_CRUMB: RefCell<String> = const { RefCell::new(String::new()) };
}

fn crumb_path() -> Option<&'static str> {
    static P: std::sync::OnceLock<Option<String>> = std::sync::OnceLock::new();
    P.get_or_init(|| std::env::var("MC_CRUMB").ok()).as_deref()
}

/// Whether breadcrumbs are wanted at all (the process runs under the supervising parent).
pub fn crumbs_on() -> bool {
    crumb_path().is_some()
}

/// The sequential engine's breadcrumb: "<property>|<config>|<cmd>:<choice>.<choice>,<cmd>:..." of the
/// history being executed by this thread.
pub fn set_seq_crumb(f: impl FnOnce(&mut String)) {
    SEQ_CRUMB.with(|c| {
        let mut s = c.borrow_mut();
        s.clear();
        f(&mut s);
    });
}

pub fn install_panic_hook() {
    HOOK.call_once(|| {
        panic::set_hook(Box::new(hook_fn));
    });
}

/// Puts the harness hook back on top (shuttle wraps the current hook on its first execution).
pub fn reinstall_panic_hook() {
    static AGAIN: Once = Once::new();
    AGAIN.call_once(|| {
        panic::set_hook(Box::new(hook_fn));
    });
}

pub fn set_quiet(q: bool) {
    QUIET.with(|c| c.set(q));
}

pub fn take_last_panic() -> Option<String> {
    LAST_PANIC.with(|p| p.borrow_mut().take())
}

/// catch_unwind that returns the panic message and location.
pub fn catch<R>(f: impl FnOnce() -> R + panic::UnwindSafe) -> Result<R, String> {
    install_panic_hook();
    let was = QUIET.with(|q| q.replace(true));
    let r = panic::catch_unwind(f);
    QUIET.with(|q| q.set(was));
    match r {
        Ok(v) => Ok(v),
        Err(e) => {
            let from_hook = take_last_panic();
            let msg = from_hook.unwrap_or_else(|| {
                if let Some(s) = e.downcast_ref::<&str>() {
                    s.to_string()
                } else if let Some(s) = e.downcast_ref::<String>() {
                    s.clone()
                } else {
                    "panic".into()
                }
            });
            Err(msg)
        }
    }
}

// ---- hooks into memcrs (feature memcrs_verif) ------------------------------------------------

thread_local! {
    /// set by the schedule explorer while a controlled execution is running on this OS thread
    pub static IN_SCHED: Cell<bool> = const { Cell::new(false) };
    pub static SCHED_POINTS: Cell<u64> = const { Cell::new(0) };
}

fn hook_sched(_label: &'static str) {
    if IN_SCHED.with(|c| c.get()) {
        SCHED_POINTS.with(|c| c.set(c.get() + 1));
        // a pure scheduling point (shuttle does not model time: sleep == switch)
        shuttle::thread::sleep(std::time::Duration::from_millis(0));
    }
}

thread_local! {
    /// while set, data choices (eviction victims) are answered with alternative 0 and are not
    /// branching points of the exploration
    pub static FIXED_CHOICES: Cell<bool> = const { Cell::new(false) };
}

fn hook_choose(n: usize) -> Option<usize> {
    if FIXED_CHOICES.with(|c| c.get()) {
        return if n > 0 { Some(0) } else { None };
    }
    crate::explore::choose_data(n)
}

pub fn init_hooks() {
    static INIT: Once = Once::new();
    INIT.call_once(|| {
        memcrs::verif::set_hooks(memcrs::verif::Hooks { sched_point: hook_sched, choose: hook_choose });
        dashmap::fixed_state::SHARDS.store(2, Ordering::SeqCst);
        install_panic_hook();
    });
}
