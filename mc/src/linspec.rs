//! Sequential specification used by the linearizability oracle of E1 (`sched`).
//!
//! CAS semantics are by token value (as C03 states them); the value of a new token is whatever the
//! implementation reported.  Time does not advance during a concurrent phase.

#![allow(dead_code)]

use crate::cmd::{Cmd, StoreKind};
use crate::model::{classify_number, Num};
use crate::wire::{st, Resp};
use std::collections::BTreeMap;

#[derive(Clone, Debug, PartialEq, Eq, Hash)]
pub struct LItem {
    pub value: Vec<u8>,
    pub flags: u32,
    pub tok: u64,
}

#[derive(Clone, Debug, PartialEq, Eq, Hash, Default)]
pub struct LKey {
    pub item: Option<LItem>,
    /// an expired record may still be held by the implementation
    pub tomb: bool,
}

#[derive(Clone, Debug, PartialEq, Eq, Hash, Default)]
pub struct LState {
    pub keys: BTreeMap<Vec<u8>, LKey>,
}

/// One completed operation as observed.
#[derive(Clone, Debug, PartialEq, Eq, Hash)]
pub struct OpObs {
    pub client: usize,
    pub index: usize,
    pub call: u64,
    pub ret: u64,
    /// resolved CAS sent
    pub cas: u64,
    pub resp: Option<Resp>,
    pub panic: Option<String>,
}

fn status(r: &Option<Resp>) -> Option<u16> {
    r.as_ref().map(|x| x.status)
}

/// Applies `cmd` with the observed response to `s`; false = this outcome is not allowed here.
pub fn lin_step(s: &mut LState, cmd: &Cmd, cas: u64, resp: &Option<Resp>) -> bool {
    let quiet = cmd.is_quiet();
    let stt = status(resp);
    if let Cmd::Flush { delay, .. } = cmd {
        if delay.unwrap_or(0) != 0 {
            // time stands still during a concurrent phase: a delayed flush changes nothing visible
            return if quiet { resp.is_none() } else { stt == Some(st::OK) };
        }
        for k in s.keys.values_mut() {
            k.item = None;
            k.tomb = false;
        }
        return if quiet { resp.is_none() } else { stt == Some(st::OK) };
    }
    if matches!(cmd, Cmd::Noop | Cmd::Version | Cmd::Stat) {
        return stt == Some(st::OK);
    }
    let key = match cmd.key() {
        Some(k) => k.to_vec(),
        None => return false,
    };
    let is_get = matches!(cmd, Cmd::Get { .. });
    // success as the client sees it
    let success = match (quiet, stt) {
        (_, Some(x)) => x == st::OK,
        (true, None) => !is_get,
        (false, None) => return false, // loud command unanswered
    };
    if quiet && !is_get && stt == Some(st::OK) {
        return false;
    }
    let e = s.keys.entry(key).or_default();
    let new_tok = |r: &Option<Resp>| -> Option<u64> {
        match r {
            Some(x) if x.status == st::OK && x.cas != 0 => Some(x.cas),
            Some(_) => None,
            None => Some(u64::MAX - 7), // quiet success: token unknown; placeholder never compared
        }
    };
    match cmd {
        Cmd::Get { .. } => match &e.item {
            Some(it) => match resp {
                Some(r) if r.status == st::OK => {
                    let fl = r.extras();
                    r.value() == &it.value[..]
                        && fl.len() == 4
                        && (it.flags == u32::MAX || u32::from_be_bytes([fl[0], fl[1], fl[2], fl[3]]) == it.flags)
                        && (r.cas == it.tok || it.tok == u64::MAX - 7)
                }
                _ => false,
            },
            None => {
                e.tomb = false; // a get collects an expired record
                if quiet {
                    resp.is_none()
                } else {
                    stt == Some(st::NOT_FOUND)
                }
            }
        },
        Cmd::Store { kind, value, flags, .. } => match (&e.item, kind) {
            (Some(_), StoreKind::Add) => !success && stt == Some(st::EXISTS),
            (Some(it), _) => {
                let ok = cas == 0 || cas == it.tok;
                if ok {
                    if !success {
                        return false;
                    }
                    match new_tok(resp) {
                        Some(t) => {
                            e.item = Some(LItem { value: value.clone(), flags: *flags, tok: t });
                            true
                        }
                        None => false,
                    }
                } else {
                    !success && stt == Some(st::EXISTS)
                }
            }
            (None, StoreKind::Replace) => {
                e.tomb = false;
                !success && stt == Some(st::NOT_FOUND)
            }
            (None, _) => {
                if success {
                    match new_tok(resp) {
                        Some(t) => {
                            e.item = Some(LItem { value: value.clone(), flags: *flags, tok: t });
                            e.tomb = false;
                            true
                        }
                        None => false,
                    }
                } else {
                    // only a store carrying a CAS may be refused on an absent key
                    cas != 0
                }
            }
        },
        Cmd::Concat { append, value, .. } => match &e.item {
            Some(it) => {
                let ok = cas == 0 || cas == it.tok;
                if ok {
                    if !success {
                        return false;
                    }
                    let mut nv = Vec::new();
                    if *append {
                        nv.extend_from_slice(&it.value);
                        nv.extend_from_slice(value);
                    } else {
                        nv.extend_from_slice(value);
                        nv.extend_from_slice(&it.value);
                    }
                    match new_tok(resp) {
                        Some(t) => {
                            e.item = Some(LItem { value: nv, flags: it.flags, tok: t });
                            true
                        }
                        None => false,
                    }
                } else {
                    !success && stt == Some(st::EXISTS)
                }
            }
            None => {
                e.tomb = false;
                !success
            }
        },
        Cmd::Delta { incr, delta, initial, exp, .. } => match &e.item {
            Some(it) => {
                let cas_ok = cas == 0 || cas == it.tok;
                let reading = match classify_number(&it.value) {
                    Num::Strict(x) => Some((x, true)),
                    Num::Loose(Some(x)) => Some((x, false)),
                    _ => None,
                };
                if success {
                    if !cas_ok {
                        return false;
                    }
                    let (x, _) = match reading {
                        Some(r) => r,
                        None => return false,
                    };
                    let want = if *incr { x.wrapping_add(*delta) } else { x.saturating_sub(*delta) };
                    if let Some(r) = resp {
                        if r.body.len() != 8 || u64::from_be_bytes(r.body[..8].try_into().unwrap()) != want {
                            return false;
                        }
                    }
                    match new_tok(resp) {
                        Some(t) => {
                            e.item = Some(LItem { value: want.to_string().into_bytes(), flags: it.flags, tok: t });
                            true
                        }
                        None => false,
                    }
                } else {
                    let strict = matches!(reading, Some((_, true)));
                    (!cas_ok && stt == Some(st::EXISTS)) || (!strict && stt == Some(st::NON_NUMERIC))
                }
            }
            None => {
                e.tomb = false;
                if *exp == 0xffff_ffff {
                    !success && stt == Some(st::NOT_FOUND)
                } else if success {
                    if let Some(r) = resp {
                        if r.body.len() != 8 || u64::from_be_bytes(r.body[..8].try_into().unwrap()) != *initial {
                            return false;
                        }
                    }
                    match new_tok(resp) {
                        Some(t) => {
                            // flags of a created counter are not specified: adopt any (u32::MAX marks unknown)
                            e.item = Some(LItem { value: initial.to_string().into_bytes(), flags: u32::MAX, tok: t });
                            true
                        }
                        None => false,
                    }
                } else {
                    cas != 0
                }
            }
        },
        Cmd::Delete { .. } => match &e.item {
            Some(it) => {
                let ok = cas == 0 || cas == it.tok;
                if ok {
                    if success {
                        e.item = None;
                        e.tomb = false;
                        true
                    } else {
                        false
                    }
                } else {
                    !success && stt == Some(st::EXISTS)
                }
            }
            None => {
                if e.tomb {
                    if success {
                        e.tomb = false;
                        true
                    } else {
                        stt == Some(st::NOT_FOUND) || (cas != 0 && stt == Some(st::EXISTS))
                    }
                } else {
                    !success && stt == Some(st::NOT_FOUND)
                }
            }
        },
        _ => false,
    }
}

/// Final content check: what a sequential `get` of every key returned after the concurrent phase.
pub fn final_matches(s: &LState, key: &[u8], final_get: &Option<Resp>) -> bool {
    let it = s.keys.get(key).and_then(|k| k.item.as_ref());
    match (it, final_get) {
        (Some(it), Some(r)) if r.status == st::OK => {
            let fl = r.extras();
            r.value() == &it.value[..]
                && fl.len() == 4
                && (it.flags == u32::MAX || u32::from_be_bytes([fl[0], fl[1], fl[2], fl[3]]) == it.flags)
                && (r.cas == it.tok || it.tok == u64::MAX - 7)
        }
        (None, Some(r)) => r.status == st::NOT_FOUND,
        _ => false,
    }
}

/// Brute-force linearizability: is there a total order of `ops` that respects program order and
/// real-time order, under which every observed response is allowed and the final gets match?
/// Returns the witness order (indices into `ops`) if one exists.
pub fn linearizable(
    init: &LState,
    cmds: &[&Cmd],
    ops: &[OpObs],
    final_gets: &[(Vec<u8>, Option<Resp>)],
) -> Option<Vec<usize>> {
    let n = ops.len();
    let mut order: Vec<usize> = Vec::with_capacity(n);
    let mut used = vec![false; n];
    fn rec(
        st: &LState,
        cmds: &[&Cmd],
        ops: &[OpObs],
        finals: &[(Vec<u8>, Option<Resp>)],
        used: &mut Vec<bool>,
        order: &mut Vec<usize>,
    ) -> bool {
        let n = ops.len();
        if order.len() == n {
            return finals.iter().all(|(k, r)| final_matches(st, k, r));
        }
        for i in 0..n {
            if used[i] {
                continue;
            }
            // i may come next only if no unused op must precede it
            let blocked = (0..n).any(|j| {
                j != i
                    && !used[j]
                    && (ops[j].ret < ops[i].call || (ops[j].client == ops[i].client && ops[j].index < ops[i].index))
            });
            if blocked {
                continue;
            }
            let mut s2 = st.clone();
            if ops[i].panic.is_some() {
                continue;
            }
            if lin_step(&mut s2, cmds[i], ops[i].cas, &ops[i].resp) {
                used[i] = true;
                order.push(i);
                if rec(&s2, cmds, ops, finals, used, order) {
                    return true;
                }
                order.pop();
                used[i] = false;
            }
        }
        false
    }
    if rec(init, cmds, ops, final_gets, &mut used, &mut order) {
        Some(order)
    } else {
        None
    }
}
