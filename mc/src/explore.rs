//! Choice-tree explorer: deterministic depth-first enumeration of executions.
//!
//! An execution is the sequence of answers given to `choose(alternatives, costs)`.  The driver
//! replays a prefix, answers 0 afterwards, and backtracks to the deepest choice point that still has
//! an untried alternative whose accumulated cost (preemptions / deviations) stays within the bound.
//! A replayed prefix that meets a different number of alternatives is a hard machinery error
//! ("replay divergence"): it means some nondeterminism was not captured.

use std::cell::RefCell;

#[derive(Clone, Debug)]
pub struct Point {
    pub n: usize,
    pub chosen: usize,
    /// cost of each alternative at this point
    pub costs: Vec<u32>,
    /// accumulated cost before this point
    pub cum: u32,
}

#[derive(Default)]
pub struct Ctx {
    pub prefix: Vec<usize>,
    pub log: Vec<Point>,
    pub cum: u32,
    pub divergence: Option<String>,
}

thread_local! {
    static CTX: RefCell<Option<Ctx>> = const { RefCell::new(None) };
}

/// Installs a context for one execution that replays `prefix`.
pub fn begin(prefix: Vec<usize>) {
    CTX.with(|c| {
        *c.borrow_mut() = Some(Ctx { prefix, log: vec![], cum: 0, divergence: None });
    });
}

/// Removes the context and returns the log of the execution.
pub fn end() -> Ctx {
    CTX.with(|c| c.borrow_mut().take().expect("explore::end without begin"))
}

pub fn active() -> bool {
    CTX.with(|c| c.borrow().is_some())
}

/// Answers one choice.  `costs[i]` is the cost of alternative i (alternative 0 must cost 0).
/// Outside an exploration context returns None.
pub fn choose(costs: &[u32]) -> Option<usize> {
    CTX.with(|c| {
        let mut b = c.borrow_mut();
        let ctx = b.as_mut()?;
        let n = costs.len();
        let i = ctx.log.len();
        let chosen = if i < ctx.prefix.len() {
            let p = ctx.prefix[i];
            if p >= n {
                ctx.divergence = Some(format!(
                    "replay divergence at choice point {}: prefix asks for alternative {} of {}",
                    i, p, n
                ));
                0
            } else {
                p
            }
        } else {
            0
        };
        let cum = ctx.cum;
        ctx.cum += costs[chosen];
        ctx.log.push(Point { n, chosen, costs: costs.to_vec(), cum });
        Some(chosen)
    })
}

/// Free data choice among n alternatives (cost 0 each).
pub fn choose_data(n: usize) -> Option<usize> {
    if n == 0 {
        return None;
    }
    let costs = vec![0u32; n];
    choose(&costs)
}

/// Depth-first driver.
pub struct Dfs {
    pub bound: u32,
    next: Option<Vec<usize>>,
    pub executions: u64,
    pub choice_points: u64,
    pub max_depth: usize,
    /// number of alternatives skipped because they would exceed the bound; 0 after the tree is
    /// exhausted means the exploration is complete for every bound
    pub pruned_by_bound: u64,
}

impl Dfs {
    pub fn new(bound: u32) -> Dfs {
        Dfs { bound, next: Some(vec![]), executions: 0, choice_points: 0, max_depth: 0, pruned_by_bound: 0 }
    }

    /// The prefix to replay in the next execution, or None when the tree is exhausted.
    pub fn next_prefix(&mut self) -> Option<Vec<usize>> {
        self.next.clone()
    }

    /// Feeds back the log of the execution just run; computes the next prefix.
    /// Returns Err on replay divergence.
    pub fn finish(&mut self, ctx: Ctx) -> Result<(), String> {
        if let Some(d) = ctx.divergence {
            return Err(d);
        }
        let prefix_len = self.next.as_ref().map(|p| p.len()).unwrap_or(0);
        if ctx.log.len() < prefix_len {
            return Err(format!(
                "replay divergence: execution made {} choices, prefix has {}",
                ctx.log.len(),
                prefix_len
            ));
        }
        self.executions += 1;
        self.choice_points += ctx.log.len() as u64;
        self.max_depth = self.max_depth.max(ctx.log.len());
        // deepest point with an untried alternative within the bound
        let mut i = ctx.log.len();
        while i > 0 {
            i -= 1;
            let p = &ctx.log[i];
            let mut alt = p.chosen + 1;
            while alt < p.n {
                if p.cum.saturating_add(p.costs[alt]) > self.bound {
                    self.pruned_by_bound += 1;
                }
                if p.cum.saturating_add(p.costs[alt]) <= self.bound {
                    let mut np: Vec<usize> = ctx.log[..i].iter().map(|q| q.chosen).collect();
                    np.push(alt);
                    self.next = Some(np);
                    return Ok(());
                }
                alt += 1;
            }
        }
        self.next = None;
        Ok(())
    }
}

/// Runs `f` once for every execution of its choice tree (all costs within `bound`).
/// `f` receives nothing and answers through `choose`; its result is passed to `on_exec` together
/// with the choices taken.  Returns the driver for its counters.
pub fn explore_all<R>(
    bound: u32,
    mut f: impl FnMut() -> R,
    mut on_exec: impl FnMut(R, &[usize]) -> bool,
) -> Result<Dfs, String> {
    let mut dfs = Dfs::new(bound);
    while let Some(prefix) = dfs.next_prefix() {
        begin(prefix);
        let r = f();
        let ctx = end();
        let choices: Vec<usize> = ctx.log.iter().map(|p| p.chosen).collect();
        dfs.finish(ctx)?;
        if !on_exec(r, &choices) {
            break;
        }
    }
    Ok(dfs)
}
