//! Independent memcached binary-protocol codec (harness side).
//!
//! Written from the protocol description; shares no code with memcrs.  The request builder can
//! produce arbitrary (also malformed) headers; the response parser splits a byte stream into frames
//! and checks the frame rules of property C11.

#![allow(dead_code)]

pub const MAGIC_REQ: u8 = 0x80;
pub const MAGIC_RES: u8 = 0x81;

pub mod op {
    pub const GET: u8 = 0x00;
    pub const SET: u8 = 0x01;
    pub const ADD: u8 = 0x02;
    pub const REPLACE: u8 = 0x03;
    pub const DELETE: u8 = 0x04;
    pub const INCR: u8 = 0x05;
    pub const DECR: u8 = 0x06;
    pub const QUIT: u8 = 0x07;
    pub const FLUSH: u8 = 0x08;
    pub const GETQ: u8 = 0x09;
    pub const NOOP: u8 = 0x0a;
    pub const VERSION: u8 = 0x0b;
    pub const GETK: u8 = 0x0c;
    pub const GETKQ: u8 = 0x0d;
    pub const APPEND: u8 = 0x0e;
    pub const PREPEND: u8 = 0x0f;
    pub const STAT: u8 = 0x10;
    pub const SETQ: u8 = 0x11;
    pub const ADDQ: u8 = 0x12;
    pub const REPLACEQ: u8 = 0x13;
    pub const DELETEQ: u8 = 0x14;
    pub const INCRQ: u8 = 0x15;
    pub const DECRQ: u8 = 0x16;
    pub const QUITQ: u8 = 0x17;
    pub const FLUSHQ: u8 = 0x18;
    pub const APPENDQ: u8 = 0x19;
    pub const PREPENDQ: u8 = 0x1a;
    pub const TOUCH: u8 = 0x1c;
    pub const GAT: u8 = 0x1d;
    pub const GATQ: u8 = 0x1e;
    pub const SASL_LIST: u8 = 0x20;
    pub const SASL_AUTH: u8 = 0x21;
    pub const SASL_STEP: u8 = 0x22;
    pub const GATK: u8 = 0x23;
    pub const GATKQ: u8 = 0x24;
}

pub mod st {
    pub const OK: u16 = 0x00;
    pub const NOT_FOUND: u16 = 0x01;
    pub const EXISTS: u16 = 0x02;
    pub const TOO_LARGE: u16 = 0x03;
    pub const INVALID: u16 = 0x04;
    pub const NOT_STORED: u16 = 0x05;
    pub const NON_NUMERIC: u16 = 0x06;
    pub const UNKNOWN_CMD: u16 = 0x81;
    pub const OOM: u16 = 0x82;
}

/// Statuses of the binary protocol's table (protocol description, "Response Status").
pub fn status_in_table(s: u16) -> bool {
    matches!(
        s,
        0x00 | 0x01 | 0x02 | 0x03 | 0x04 | 0x05 | 0x06 | 0x07 | 0x08 | 0x09 | 0x20 | 0x21 | 0x81 | 0x82 | 0x83 | 0x84 | 0x85 | 0x86
    )
}

pub fn is_quiet(opcode: u8) -> bool {
    matches!(
        opcode,
        op::GETQ
            | op::GETKQ
            | op::SETQ
            | op::ADDQ
            | op::REPLACEQ
            | op::DELETEQ
            | op::INCRQ
            | op::DECRQ
            | op::QUITQ
            | op::FLUSHQ
            | op::APPENDQ
            | op::PREPENDQ
            | op::GATQ
            | op::GATKQ
    )
}

pub fn op_name(opcode: u8) -> &'static str {
    match opcode {
        0x00 => "get",
        0x01 => "set",
        0x02 => "add",
        0x03 => "replace",
        0x04 => "delete",
        0x05 => "incr",
        0x06 => "decr",
        0x07 => "quit",
        0x08 => "flush",
        0x09 => "getq",
        0x0a => "noop",
        0x0b => "version",
        0x0c => "getk",
        0x0d => "getkq",
        0x0e => "append",
        0x0f => "prepend",
        0x10 => "stat",
        0x11 => "setq",
        0x12 => "addq",
        0x13 => "replaceq",
        0x14 => "deleteq",
        0x15 => "incrq",
        0x16 => "decrq",
        0x17 => "quitq",
        0x18 => "flushq",
        0x19 => "appendq",
        0x1a => "prependq",
        0x1c => "touch",
        0x1d => "gat",
        0x1e => "gatq",
        0x20 => "sasl_list",
        0x21 => "sasl_auth",
        0x22 => "sasl_step",
        0x23 => "gatk",
        0x24 => "gatkq",
        _ => "op?",
    }
}

/// A request frame.  `key_len`, `extras_len`, `body_len` default to the real lengths but can be
/// overridden to build malformed frames.
#[derive(Clone, Debug, PartialEq, Eq, Hash)]
pub struct Req {
    pub magic: u8,
    pub opcode: u8,
    pub data_type: u8,
    pub vbucket: u16,
    pub opaque: u32,
    pub cas: u64,
    pub extras: Vec<u8>,
    pub key: Vec<u8>,
    pub value: Vec<u8>,
    pub key_len: Option<u16>,
    pub extras_len: Option<u8>,
    pub body_len: Option<u32>,
}

impl Req {
    pub fn new(opcode: u8) -> Req {
        Req {
            magic: MAGIC_REQ,
            opcode,
            data_type: 0,
            vbucket: 0,
            opaque: 0,
            cas: 0,
            extras: vec![],
            key: vec![],
            value: vec![],
            key_len: None,
            extras_len: None,
            body_len: None,
        }
    }
    pub fn key(mut self, k: &[u8]) -> Req {
        self.key = k.to_vec();
        self
    }
    pub fn value(mut self, v: &[u8]) -> Req {
        self.value = v.to_vec();
        self
    }
    pub fn extras(mut self, e: &[u8]) -> Req {
        self.extras = e.to_vec();
        self
    }
    pub fn opaque(mut self, o: u32) -> Req {
        self.opaque = o;
        self
    }
    pub fn cas(mut self, c: u64) -> Req {
        self.cas = c;
        self
    }
    pub fn body_length(&self) -> u32 {
        self.body_len
            .unwrap_or((self.extras.len() + self.key.len() + self.value.len()) as u32)
    }
    pub fn header(&self) -> [u8; 24] {
        let mut h = [0u8; 24];
        h[0] = self.magic;
        h[1] = self.opcode;
        let kl = self.key_len.unwrap_or(self.key.len() as u16);
        h[2..4].copy_from_slice(&kl.to_be_bytes());
        h[4] = self.extras_len.unwrap_or(self.extras.len() as u8);
        h[5] = self.data_type;
        h[6..8].copy_from_slice(&self.vbucket.to_be_bytes());
        h[8..12].copy_from_slice(&self.body_length().to_be_bytes());
        h[12..16].copy_from_slice(&self.opaque.to_be_bytes());
        h[16..24].copy_from_slice(&self.cas.to_be_bytes());
        h
    }
    /// Header followed by the bytes actually carried (extras, key, value).
    pub fn bytes(&self) -> Vec<u8> {
        let mut v = Vec::with_capacity(24 + self.extras.len() + self.key.len() + self.value.len());
        v.extend_from_slice(&self.header());
        v.extend_from_slice(&self.extras);
        v.extend_from_slice(&self.key);
        v.extend_from_slice(&self.value);
        v
    }

    // ---- well-formed builders ------------------------------------------------------------
    pub fn get(opcode: u8, key: &[u8]) -> Req {
        Req::new(opcode).key(key)
    }
    pub fn store(opcode: u8, key: &[u8], value: &[u8], flags: u32, ttl: u32, cas: u64) -> Req {
        let mut e = Vec::with_capacity(8);
        e.extend_from_slice(&flags.to_be_bytes());
        e.extend_from_slice(&ttl.to_be_bytes());
        Req::new(opcode).key(key).value(value).extras(&e).cas(cas)
    }
    pub fn concat(opcode: u8, key: &[u8], value: &[u8], cas: u64) -> Req {
        Req::new(opcode).key(key).value(value).cas(cas)
    }
    pub fn delta(opcode: u8, key: &[u8], delta: u64, initial: u64, exp: u32, cas: u64) -> Req {
        let mut e = Vec::with_capacity(20);
        e.extend_from_slice(&delta.to_be_bytes());
        e.extend_from_slice(&initial.to_be_bytes());
        e.extend_from_slice(&exp.to_be_bytes());
        Req::new(opcode).key(key).extras(&e).cas(cas)
    }
    pub fn delete(opcode: u8, key: &[u8], cas: u64) -> Req {
        Req::new(opcode).key(key).cas(cas)
    }
    pub fn flush(opcode: u8, delay: Option<u32>) -> Req {
        match delay {
            Some(d) => Req::new(opcode).extras(&d.to_be_bytes()),
            None => Req::new(opcode),
        }
    }
    pub fn bare(opcode: u8) -> Req {
        Req::new(opcode)
    }
}

/// One response frame as found on the wire.
#[derive(Clone, Debug, PartialEq, Eq, Hash)]
pub struct Resp {
    pub magic: u8,
    pub opcode: u8,
    pub key_len: u16,
    pub extras_len: u8,
    pub data_type: u8,
    pub status: u16,
    pub body_len: u32,
    pub opaque: u32,
    pub cas: u64,
    /// the `body_len` bytes following the header
    pub body: Vec<u8>,
}

impl Resp {
    pub fn extras(&self) -> &[u8] {
        let e = (self.extras_len as usize).min(self.body.len());
        &self.body[..e]
    }
    pub fn key(&self) -> &[u8] {
        let e = (self.extras_len as usize).min(self.body.len());
        let k = (e + self.key_len as usize).min(self.body.len());
        &self.body[e..k]
    }
    pub fn value(&self) -> &[u8] {
        let k = (self.extras_len as usize + self.key_len as usize).min(self.body.len());
        &self.body[k..]
    }
    pub fn short(&self) -> String {
        format!(
            "{}:st={:#04x} opq={:#x} cas={} ext={} key={} val={}",
            op_name(self.opcode),
            self.status,
            self.opaque,
            self.cas,
            hex(self.extras()),
            show(self.key()),
            show(self.value())
        )
    }
}

pub fn hex(b: &[u8]) -> String {
    let mut s = String::with_capacity(b.len() * 2);
    for x in b.iter().take(48) {
        s.push_str(&format!("{:02x}", x));
    }
    if b.len() > 48 {
        s.push_str(&format!("..({}B)", b.len()));
    }
    s
}

/// Printable rendering of a byte string for reports.
pub fn show(b: &[u8]) -> String {
    if b.len() <= 40 && b.iter().all(|c| (0x20..0x7f).contains(c) && *c != b'"' && *c != b'\\') {
        format!("\"{}\"", String::from_utf8_lossy(b))
    } else {
        format!("x{}", hex(b))
    }
}

/// Splits a response byte stream into frames.  Returns the frames and the number of bytes left
/// over (an incomplete trailing frame or garbage); a stream written by a correct server always
/// leaves 0.
pub fn split_responses(bytes: &[u8]) -> (Vec<Resp>, usize) {
    let mut out = vec![];
    let mut p = 0usize;
    while bytes.len() - p >= 24 {
        let h = &bytes[p..p + 24];
        let body_len = u32::from_be_bytes([h[8], h[9], h[10], h[11]]);
        if bytes.len() - p - 24 < body_len as usize {
            break;
        }
        let body = bytes[p + 24..p + 24 + body_len as usize].to_vec();
        out.push(Resp {
            magic: h[0],
            opcode: h[1],
            key_len: u16::from_be_bytes([h[2], h[3]]),
            extras_len: h[4],
            data_type: h[5],
            status: u16::from_be_bytes([h[6], h[7]]),
            body_len,
            opaque: u32::from_be_bytes([h[12], h[13], h[14], h[15]]),
            cas: u64::from_be_bytes([h[16], h[17], h[18], h[19], h[20], h[21], h[22], h[23]]),
            body,
        });
        p += 24 + body_len as usize;
    }
    (out, bytes.len() - p)
}

/// C11 frame rules that are independent of the store state.  `req_opcode`/`req_opaque` are those of
/// the request this response answers; `req_key` is the key the request carried.
/// Returns the first broken rule.
pub fn check_frame(req_opcode: u8, req_opaque: u32, req_key: &[u8], r: &Resp) -> Result<(), String> {
    if r.magic != MAGIC_RES {
        return Err(format!("frame.magic: {:#x}", r.magic));
    }
    if r.opcode != req_opcode {
        return Err(format!("frame.opcode-echo: sent {:#x} got {:#x}", req_opcode, r.opcode));
    }
    if r.opaque != req_opaque {
        return Err(format!("frame.opaque-echo: sent {:#x} got {:#x}", req_opaque, r.opaque));
    }
    if r.data_type != 0 {
        return Err(format!("frame.data-type: {}", r.data_type));
    }
    if !status_in_table(r.status) {
        return Err(format!("frame.status-table: {:#x}", r.status));
    }
    if (r.extras_len as usize + r.key_len as usize) > r.body_len as usize {
        return Err(format!(
            "frame.body-length: extras {} + key {} > body {}",
            r.extras_len, r.key_len, r.body_len
        ));
    }
    if r.status != st::OK {
        // error: no extras, no key, body = message text
        if r.extras_len != 0 || r.key_len != 0 {
            return Err("frame.error-shape: extras/key on an error response".into());
        }
        if r.body.is_empty() || !r.body.iter().all(|c| (0x20..0x7f).contains(c)) {
            return Err(format!("frame.error-text: {}", show(&r.body)));
        }
        return Ok(());
    }
    match req_opcode {
        op::GET | op::GETQ | op::GETK | op::GETKQ => {
            if r.extras_len != 4 {
                return Err(format!("frame.get-extras: {}", r.extras_len));
            }
            let wants_key = matches!(req_opcode, op::GETK | op::GETKQ);
            if wants_key {
                if r.key() != req_key {
                    return Err(format!("frame.getk-key: {}", show(r.key())));
                }
            } else if r.key_len != 0 {
                return Err(format!("frame.get-key: key echoed by a non-key get ({} bytes)", r.key_len));
            }
        }
        op::INCR | op::DECR | op::INCRQ | op::DECRQ => {
            if r.extras_len != 0 || r.key_len != 0 || r.body_len != 8 {
                return Err(format!(
                    "frame.counter-body: extras {} key {} body {}",
                    r.extras_len, r.key_len, r.body_len
                ));
            }
        }
        op::VERSION | op::STAT => {
            if r.extras_len != 0 || r.key_len != 0 {
                return Err("frame.version-shape".into());
            }
        }
        _ => {
            // set/add/replace/append/prepend/delete/flush/noop/quit: the property only asks that the
            // lengths describe the bytes that follow (checked above); the key is echoed by get-key only
            if r.key_len != 0 {
                return Err(format!("frame.key-echo: {} echoed a key ({} bytes)", op_name(req_opcode), r.key_len));
            }
        }
    }
    Ok(())
}

pub fn hex_full(b: &[u8]) -> String {
    let mut s = String::with_capacity(b.len() * 2);
    for x in b {
        s.push_str(&format!("{:02x}", x));
    }
    s
}

pub fn unhex(s: &str) -> Vec<u8> {
    (0..s.len() / 2).filter_map(|i| u8::from_str_radix(&s[2 * i..2 * i + 2], 16).ok()).collect()
}
