//! Program families for the E1 `sched` engine (C03, C04, C14 concurrent part, C16).

#![allow(dead_code)]

use crate::cmd::{CasArg, Cmd, StoreKind};
use crate::props::Tier;
use crate::sched::{Init, Program, SchedOpts};
use crate::sut::Policy;

pub const K: &[u8] = b"k";

/// An operation template; the client index makes written values distinguishable.
#[derive(Clone, Copy, Debug, PartialEq, Eq, Hash, PartialOrd, Ord)]
pub enum T {
    Get,
    Set,
    SetCur,
    SetStale,
    Del,
    DelCur,
    Add,
    Replace,
    Append,
    Prepend,
    Incr,
    Decr,
    Flush,
    /// flush with a delay far beyond the concurrent phase (time does not advance there)
    FlushLater,
    SetOther,
    GetOther,
    SetBig,
    AppendBig,
    DelOther,
    DelStale,
    /// unconditional set writing the very bytes the item already holds (different flags)
    SetSame,
    /// CAS set (current token) writing the very bytes the item already holds (different flags)
    SetCurSame,
    /// store under a key nobody else uses and that is absent initially (exact accounting)
    SetNew,
    /// read-modify-write commands carrying the item's current CAS
    IncrCur,
    DecrCur,
    AppendCur,
    PrependCur,
    /// the same guarded commands with operands that do not depend on the client: two clients send
    /// byte-identical requests (a retry, two workers doing the same job)
    IncrCurSame,
    DecrCurSame,
    AppendCurSame,
    PrependCurSame,
    /// unconditional set of a decimal number (a counter being reset by another client)
    SetNum,
    /// incr by 0 carrying the current CAS / a stale one: a mutation like any other
    IncrCurZero,
    IncrStaleZero,
    /// stores carrying a TTL of 2 s (time stands still during the concurrent phase)
    SetTtl,
    AddTtl,
    /// append / prepend carrying a CAS that does not match (refused)
    AppendStale,
    PrependStale,
}

pub fn instantiate(t: T, client: usize, key: &[u8], other: &[u8]) -> Cmd {
    let tag = |s: &str| format!("{}{}", s, client).into_bytes();
    let k = key.to_vec();
    match t {
        T::Get => Cmd::Get { key: k, with_key: false, quiet: false },
        T::Set => Cmd::Store { kind: StoreKind::Set, key: k, value: tag("S"), flags: 10 + client as u32, ttl: 0, cas: CasArg::Zero, quiet: false },
        T::SetCur => Cmd::Store { kind: StoreKind::Set, key: k, value: tag("C"), flags: 20 + client as u32, ttl: 0, cas: CasArg::Current, quiet: false },
        T::SetStale => Cmd::Store { kind: StoreKind::Set, key: k, value: tag("X"), flags: 30 + client as u32, ttl: 0, cas: CasArg::Stale1, quiet: false },
        T::Del => Cmd::Delete { key: k, cas: CasArg::Zero, quiet: false },
        T::DelCur => Cmd::Delete { key: k, cas: CasArg::Current, quiet: false },
        T::Add => Cmd::Store { kind: StoreKind::Add, key: k, value: tag("A"), flags: 40 + client as u32, ttl: 0, cas: CasArg::Zero, quiet: false },
        T::Replace => Cmd::Store { kind: StoreKind::Replace, key: k, value: tag("R"), flags: 50 + client as u32, ttl: 0, cas: CasArg::Zero, quiet: false },
        T::Append => Cmd::Concat { append: true, key: k, value: tag("+"), cas: CasArg::Zero, quiet: false },
        T::Prepend => Cmd::Concat { append: false, key: k, value: tag("-"), cas: CasArg::Zero, quiet: false },
        T::Incr => Cmd::Delta { incr: true, key: k, delta: 1 + client as u64, initial: 100, exp: 0, cas: CasArg::Zero, quiet: false },
        T::Decr => Cmd::Delta { incr: false, key: k, delta: 1 + client as u64, initial: 100, exp: 0, cas: CasArg::Zero, quiet: false },
        T::Flush => Cmd::Flush { delay: None, quiet: false },
        T::FlushLater => Cmd::Flush { delay: Some(1000), quiet: false },
        T::SetOther => Cmd::Store { kind: StoreKind::Set, key: other.to_vec(), value: tag("O"), flags: 60, ttl: 0, cas: CasArg::Zero, quiet: false },
        T::GetOther => Cmd::Get { key: other.to_vec(), with_key: false, quiet: false },
        T::SetBig => Cmd::Store { kind: StoreKind::Set, key: k, value: vec![b'B'; 40], flags: 70, ttl: 0, cas: CasArg::Zero, quiet: false },
        T::AppendBig => Cmd::Concat { append: true, key: k, value: vec![b'b'; 30], cas: CasArg::Zero, quiet: false },
        T::DelStale => Cmd::Delete { key: k, cas: CasArg::Stale1, quiet: false },
        T::SetSame => Cmd::Store { kind: StoreKind::Set, key: k, value: b"10".to_vec(), flags: 90 + client as u32, ttl: 0, cas: CasArg::Zero, quiet: false },
        T::SetCurSame => Cmd::Store { kind: StoreKind::Set, key: k, value: b"10".to_vec(), flags: 95 + client as u32, ttl: 0, cas: CasArg::Current, quiet: false },
        T::DelOther => Cmd::Delete { key: other.to_vec(), cas: CasArg::Zero, quiet: false },
        T::IncrCur => Cmd::Delta { incr: true, key: k, delta: 1 + client as u64, initial: 100, exp: 0, cas: CasArg::Current, quiet: false },
        T::DecrCur => Cmd::Delta { incr: false, key: k, delta: 1 + client as u64, initial: 100, exp: 0, cas: CasArg::Current, quiet: false },
        T::AppendCur => Cmd::Concat { append: true, key: k, value: tag("+"), cas: CasArg::Current, quiet: false },
        T::PrependCur => Cmd::Concat { append: false, key: k, value: tag("-"), cas: CasArg::Current, quiet: false },
        T::IncrCurSame => Cmd::Delta { incr: true, key: k, delta: 1, initial: 100, exp: 0, cas: CasArg::Current, quiet: false },
        T::DecrCurSame => Cmd::Delta { incr: false, key: k, delta: 1, initial: 100, exp: 0, cas: CasArg::Current, quiet: false },
        T::AppendCurSame => Cmd::Concat { append: true, key: k, value: b"+".to_vec(), cas: CasArg::Current, quiet: false },
        T::PrependCurSame => Cmd::Concat { append: false, key: k, value: b"-".to_vec(), cas: CasArg::Current, quiet: false },
        T::IncrCurZero => Cmd::Delta { incr: true, key: k, delta: 0, initial: 100, exp: 0, cas: CasArg::Current, quiet: false },
        T::IncrStaleZero => Cmd::Delta { incr: true, key: k, delta: 0, initial: 100, exp: 0, cas: CasArg::Stale1, quiet: false },
        T::SetNum => Cmd::Store { kind: StoreKind::Set, key: k, value: format!("{}", 100 + client).into_bytes(), flags: 130 + client as u32, ttl: 0, cas: CasArg::Zero, quiet: false },
        T::SetTtl => Cmd::Store { kind: StoreKind::Set, key: k, value: tag("T"), flags: 110 + client as u32, ttl: 1, cas: CasArg::Zero, quiet: false },
        T::AddTtl => Cmd::Store { kind: StoreKind::Add, key: k, value: tag("U"), flags: 120 + client as u32, ttl: 2, cas: CasArg::Zero, quiet: false },
        T::AppendStale => Cmd::Concat { append: true, key: k, value: tag("+"), cas: CasArg::Stale1, quiet: false },
        T::PrependStale => Cmd::Concat { append: false, key: k, value: tag("-"), cas: CasArg::Stale1, quiet: false },
        T::SetNew => Cmd::Store { kind: StoreKind::Set, key: format!("new{}", client).into_bytes(), value: tag("N"), flags: 80, ttl: 0, cas: CasArg::Zero, quiet: false },
    }
}

/// all multisets of size n over `alpha` (as sorted index vectors)
pub fn multisets(alpha: &[T], n: usize) -> Vec<Vec<T>> {
    fn rec(alpha: &[T], n: usize, start: usize, cur: &mut Vec<T>, out: &mut Vec<Vec<T>>) {
        if cur.len() == n {
            out.push(cur.clone());
            return;
        }
        for i in start..alpha.len() {
            cur.push(alpha[i]);
            rec(alpha, n, i, cur, out);
            cur.pop();
        }
    }
    let mut out = vec![];
    rec(alpha, n, 0, &mut vec![], &mut out);
    out
}

pub struct Family {
    pub name: String,
    pub programs: Vec<Program>,
    pub opts: SchedOpts,
}

fn mk(init: Init, clients: Vec<Vec<T>>, key: &[u8], other: &[u8], keys: Vec<Vec<u8>>, policy: Policy) -> Program {
    Program {
        init,
        init_value: b"10".to_vec(),
        keys,
        clients: clients
            .iter()
            .enumerate()
            .map(|(ci, ops)| ops.iter().map(|t| instantiate(*t, ci, key, other)).collect())
            .collect(),
        policy,
        shards: 2,
        tag: "",
    }
}

fn tagged(mut p: Program, tag: &'static str) -> Program {
    p.tag = tag;
    p
}

const INITS: [Init; 3] = [Init::Absent, Init::Present, Init::Expired];

pub const C03_ALPHA: [T; 9] = [T::Get, T::Set, T::SetCur, T::SetStale, T::Del, T::DelCur, T::DelStale, T::SetSame, T::SetCurSame];
pub const C04_RMW: [T; 6] = [T::Add, T::Replace, T::Append, T::Prepend, T::Incr, T::Decr];

fn opts(max_bound: u32, tier: Tier) -> SchedOpts {
    let max_bound = std::env::var("MC_BOUND").ok().and_then(|s| s.parse().ok()).unwrap_or(max_bound);
    SchedOpts {
        max_bound,
        check_lin: true,
        c14: false,
        c14_clause: "over-limit-after-race",
        c15: false,
        max_steps: 20_000,
        max_execs: if tier == Tier::Quick { 400_000 } else { 20_000_000 },
        advance_after: 0,
    }
}

pub fn c03_families(tier: Tier) -> Vec<Family> {
    let mut fams = vec![];
    let keys = vec![K.to_vec()];
    // 2 clients x 1 op: every multiset, every initial state
    let mut progs = vec![];
    for init in INITS {
        for ms in multisets(&C03_ALPHA, 2) {
            progs.push(mk(init, ms.iter().map(|t| vec![*t]).collect(), K, K, keys.clone(), Policy::None));
        }
    }
    fams.push(Family {
        name: "2x1".into(),
        programs: progs,
        opts: opts(if tier == Tier::Quick { 3 } else { 64 }, tier),
    });
    // 3 clients x 1 op
    let mut progs = vec![];
    for init in INITS {
        for ms in multisets(&C03_ALPHA, 3) {
            progs.push(mk(init, ms.iter().map(|t| vec![*t]).collect(), K, K, keys.clone(), Policy::None));
        }
    }
    fams.push(Family { name: "3x1".into(), programs: progs, opts: opts(if tier == Tier::Quick { 2 } else { 3 }, tier) });
    if tier == Tier::Thorough {
        // 2 clients x 2 ops
        let mut seqs: Vec<Vec<T>> = vec![];
        let core = [T::Get, T::Set, T::SetCur, T::SetStale, T::Del, T::DelCur, T::SetCurSame];
        for a in core {
            for b in core {
                seqs.push(vec![a, b]);
            }
        }
        let mut progs = vec![];
        for init in INITS {
            for i in 0..seqs.len() {
                for j in i..seqs.len() {
                    progs.push(mk(init, vec![seqs[i].clone(), seqs[j].clone()], K, K, keys.clone(), Policy::None));
                }
            }
        }
        fams.push(Family { name: "2x2".into(), programs: progs, opts: opts(2, tier) });
    }
    // random policy with an unreachable limit in front of the same store
    let mut progs = vec![];
    for init in INITS {
        for ms in multisets(&C03_ALPHA, 2) {
            progs.push(mk(init, ms.iter().map(|t| vec![*t]).collect(), K, K, keys.clone(), Policy::Random(1 << 40)));
        }
    }
    fams.push(Family { name: "2x1/random-policy".into(), programs: progs, opts: opts(if tier == Tier::Quick { 3 } else { 64 }, tier) });
    // one command against two in a row (a client that deletes and stores again, stores and reads
    // back), on the bare store and behind the policy: what the first of the two leaves behind - in
    // the store or in the policy's bookkeeping - meets the other client's command half-way
    for (name, policy) in [("1+2", Policy::None), ("1+2/random-policy", Policy::Random(1 << 40))] {
        let mut progs = vec![];
        for init in [Init::Absent, Init::Present] {
            for a in [T::Set, T::SetCur, T::Del] {
                for b1 in [T::Get, T::Set, T::Del] {
                    for b2 in [T::Get, T::Set, T::Del] {
                        progs.push(mk(init, vec![vec![a], vec![b1, b2]], K, K, keys.clone(), policy));
                    }
                }
            }
        }
        fams.push(Family { name: name.into(), programs: progs, opts: opts(if tier == Tier::Quick { 2 } else { 64 }, tier) });
    }
    // a store that carries a TTL over a predecessor (expired and uncollected, or live): the new item
    // lives from *its* store time - a get, racing or right behind it, finds it
    let mut progs = vec![];
    for init in [Init::Expired, Init::Present] {
        for prog in [
            vec![vec![T::SetTtl], vec![T::Get]],
            vec![vec![T::SetTtl, T::Get], vec![T::Get]],
            vec![vec![T::SetTtl], vec![T::Get], vec![T::Get]],
        ] {
            progs.push(mk(init, prog, K, K, keys.clone(), Policy::None));
        }
    }
    fams.push(Family { name: "ttl-store-over-predecessor".into(), programs: progs, opts: opts(if tier == Tier::Quick { 2 } else { 64 }, tier) });
    // a pending delayed flush rewrites the expiry of every item while clients store and read: it
    // touches deadlines, never values, flags or versions - what a store acknowledged (value, CAS) is
    // what the next get reports, and a CAS store that lost stays lost
    let mut progs = vec![];
    for a in [vec![T::Set], vec![T::SetCur], vec![T::SetCur, T::Get], vec![T::Set, T::SetCur], vec![T::SetStale], vec![T::Get]] {
        progs.push(mk(Init::Present, vec![a.clone(), vec![T::FlushLater]], K, K, keys.clone(), Policy::None));
        progs.push(mk(Init::Present, vec![a.clone(), vec![T::FlushLater], vec![T::Get]], K, K, keys.clone(), Policy::None));
    }
    fams.push(Family { name: "store-vs-delayed-flush".into(), programs: progs, opts: opts(if tier == Tier::Quick { 2 } else { 64 }, tier) });
    fams
}

pub fn c04_families(tier: Tier) -> Vec<Family> {
    let mut fams = vec![];
    let keys = vec![K.to_vec()];
    let mut alpha: Vec<T> = C04_RMW.to_vec();
    alpha.extend_from_slice(&[T::Get, T::Set, T::Del]);
    // 2 x 1: every pair containing at least one RMW command
    let mut progs = vec![];
    for init in INITS {
        for ms in multisets(&alpha, 2) {
            if !ms.iter().any(|t| C04_RMW.contains(t)) {
                continue;
            }
            progs.push(mk(init, ms.iter().map(|t| vec![*t]).collect(), K, K, keys.clone(), Policy::None));
        }
    }
    fams.push(Family { name: "2x1".into(), programs: progs, opts: opts(if tier == Tier::Quick { 3 } else { 64 }, tier) });
    let mut progs = vec![];
    for init in INITS {
        for ms in multisets(&alpha, 3) {
            if !ms.iter().any(|t| C04_RMW.contains(t)) {
                continue;
            }
            if tier == Tier::Quick && !(ms[0] == ms[1] && ms[1] == ms[2]) && !ms.contains(&T::Del) {
                continue;
            }
            progs.push(mk(init, ms.iter().map(|t| vec![*t]).collect(), K, K, keys.clone(), Policy::None));
        }
    }
    fams.push(Family { name: "3x1".into(), programs: progs, opts: opts(if tier == Tier::Quick { 2 } else { 3 }, tier) });
    // the same pairs with the random policy (unreachable limit) in front of the store
    let mut progs = vec![];
    for init in INITS {
        for ms in multisets(&alpha, 2) {
            if !ms.iter().any(|t| C04_RMW.contains(t)) {
                continue;
            }
            progs.push(mk(init, ms.iter().map(|t| vec![*t]).collect(), K, K, keys.clone(), Policy::Random(1 << 40)));
        }
    }
    fams.push(Family { name: "2x1/random-policy".into(), programs: progs, opts: opts(if tier == Tier::Quick { 3 } else { 64 }, tier) });
    // read-modify-write commands guarded by the current CAS: of two that read the same version only
    // one may win, and a plain writer in between must make the guarded one fail
    let guarded = [T::IncrCur, T::DecrCur, T::AppendCur, T::PrependCur, T::IncrCurZero];
    let against = [T::IncrCur, T::DecrCur, T::AppendCur, T::PrependCur, T::Incr, T::Append, T::Set, T::SetCur, T::Del, T::Get, T::SetNum, T::IncrCurZero, T::IncrStaleZero];
    let mut progs = vec![];
    for (gi, g) in guarded.iter().enumerate() {
        for (oi, o) in against.iter().enumerate() {
            if oi < guarded.len() && oi < gi {
                continue;
            }
            progs.push(mk(Init::Present, vec![vec![*g], vec![*o]], K, K, keys.clone(), Policy::None));
        }
    }
    // a token read before a flush names a version that is gone: whatever is stored afterwards is
    // another item (the guarded command must lose against it, and no new version may carry an old number)
    // (append only: a guarded incr that meets the flushed key half-way creates a counter - the
    // recorded get-then-set defect, which these programs are not about)
    for g in [T::AppendCur, T::PrependCur] {
        progs.push(mk(Init::Present, vec![vec![g], vec![T::Flush, T::SetNum]], K, K, keys.clone(), Policy::None));
        progs.push(mk(Init::Present, vec![vec![g], vec![T::Flush, T::SetNum, T::SetNum]], K, K, keys.clone(), Policy::None));
    }
    // two clients sending the very same guarded command (same operand, same token): still only one wins
    for g in [T::IncrCurSame, T::DecrCurSame, T::AppendCurSame, T::PrependCurSame] {
        progs.push(mk(Init::Present, vec![vec![g], vec![g]], K, K, keys.clone(), Policy::None));
        progs.push(mk(Init::Present, vec![vec![g], vec![g], vec![T::Get]], K, K, keys.clone(), Policy::None));
    }
    // the version the guarded command read is deleted and the key stored afresh in between: the new
    // item is a different one, whatever token it got (ABA)
    for g in guarded {
        progs.push(mk(Init::Present, vec![vec![g], vec![T::Del, T::Set]], K, K, keys.clone(), Policy::None));
        progs.push(mk(Init::Present, vec![vec![g], vec![T::Del, T::Add]], K, K, keys.clone(), Policy::None));
    }
    // a delayed flush running next to a guarded command: it shortens lifetimes and leaves versions
    // alone - the token the guarded command was acknowledged with is the item's token afterwards
    // (the follow-up get and a second guarded command by the same client see it)
    for g in guarded {
        progs.push(mk(Init::Present, vec![vec![g], vec![T::FlushLater]], K, K, keys.clone(), Policy::None));
        progs.push(mk(Init::Present, vec![vec![g, T::Get], vec![T::FlushLater]], K, K, keys.clone(), Policy::None));
    }
    fams.push(Family { name: "2x1/rmw-with-cas".into(), programs: progs, opts: opts(if tier == Tier::Quick { 3 } else { 64 }, tier) });
    fams
}

/// C06, concurrent part: the conditional stores against a concurrent plain store or read of the
/// same key - only the pairs that are linearizable on the unchanged tree (pairs of two
/// read-modify-write commands are C04's recorded findings): a replace or append that meets a
/// concurrent set/get still answers by the presence rule, never 'key exists'.
pub fn c06_families(tier: Tier) -> Vec<Family> {
    let (same, _diff) = sibling_keys(K);
    let keys = vec![K.to_vec(), same.clone()];
    let pairs: Vec<(Vec<T>, Vec<T>)> = vec![
        (vec![T::Replace], vec![T::Set]),
        (vec![T::Replace], vec![T::Get]),
        (vec![T::Replace], vec![T::Replace]),
        (vec![T::Replace], vec![T::SetOther]),
        (vec![T::Replace, T::Get], vec![T::Set]),
        (vec![T::Add], vec![T::Get]),
        (vec![T::Add], vec![T::SetOther]),
        (vec![T::Add, T::Get], vec![T::Get]),
        (vec![T::Append], vec![T::Get]),
        (vec![T::Prepend], vec![T::Get]),
        (vec![T::Append, T::Get], vec![T::GetOther]),
    ];
    let mut progs = vec![];
    for init in INITS {
        for (a, b) in &pairs {
            progs.push(mk(init, vec![a.clone(), b.clone()], K, &same, keys.clone(), Policy::None));
        }
    }
    vec![Family { name: "conditional-store-vs-plain".into(), programs: progs, opts: opts(if tier == Tier::Quick { 3 } else { 64 }, tier) }]
}

/// C08, concurrent part: delete (cas 0 / matching / stale) against concurrent stores and reads of
/// the same and of another key: it removes exactly what it addresses, a CAS mismatch has no effect.
pub fn c08_families(tier: Tier) -> Vec<Family> {
    let (same, _diff) = sibling_keys(K);
    let keys = vec![K.to_vec(), same.clone()];
    let dels = [T::Del, T::DelCur, T::DelStale];
    let others = [T::Set, T::SetCur, T::Get, T::SetOther, T::DelOther, T::Del, T::Flush];
    let mut progs = vec![];
    for init in INITS {
        for d in dels {
            for o in others {
                progs.push(mk(init, vec![vec![d], vec![o]], K, &same, keys.clone(), Policy::None));
                progs.push(mk(init, vec![vec![d, T::Get], vec![o]], K, &same, keys.clone(), Policy::None));
            }
        }
    }
    vec![Family { name: "delete-vs-other".into(), programs: progs, opts: opts(if tier == Tier::Quick { 3 } else { 64 }, tier) }]
}

/// shard index of a key under the vendored dashmap's fixed hasher
pub fn shard_of(key: &[u8]) -> usize {
    let m: dashmap::DashMap<bytes::Bytes, ()> = dashmap::DashMap::new();
    m.determine_map(&bytes::Bytes::copy_from_slice(key))
}

/// a key on the same shard as `k`, and one on a different shard (shard count >= 2)
pub fn sibling_keys(k: &[u8]) -> (Vec<u8>, Vec<u8>) {
    let s = shard_of(k);
    let mut same = None;
    let mut diff = None;
    for i in 0..64u8 {
        let cand = vec![b'o', b'0' + (i / 10), b'0' + (i % 10)];
        if shard_of(&cand) == s {
            same.get_or_insert(cand);
        } else {
            diff.get_or_insert(cand);
        }
    }
    (same.expect("same-shard key"), diff.expect("other-shard key"))
}

pub fn c16_families(tier: Tier) -> Vec<Family> {
    let (same, diff) = sibling_keys(K);
    let mut fams = vec![];
    let alpha_plain = [T::Get, T::Set, T::SetCur, T::Del, T::Add, T::Append, T::Incr, T::Flush, T::SetOther, T::GetOther];
    let alpha_evict = [T::Get, T::Set, T::SetBig, T::AppendBig, T::Del, T::Incr, T::Flush, T::SetOther, T::GetOther];
    let mut o = opts(if tier == Tier::Quick { 2 } else { 3 }, tier);
    o.check_lin = false;
    o.max_execs = if tier == Tier::Quick { 400_000 } else { 3_000_000 };
    for (pname, policy, alpha) in [
        ("none", Policy::None, &alpha_plain[..]),
        ("random-tight", Policy::Random(60), &alpha_evict[..]),
    ] {
        for (kname, other) in [("same-shard", &same), ("other-shard", &diff)] {
            let keys = vec![K.to_vec(), other.clone()];
            let mut p2 = vec![];
            let mut p3 = vec![];
            let mut p22 = vec![];
            for init in INITS {
                for ms in multisets(alpha, 2) {
                    p2.push(mk(init, ms.iter().map(|t| vec![*t]).collect(), K, other, keys.clone(), policy));
                }
                for ms in multisets(alpha, 3) {
                    // quick: only triples that contain a whole-store sweep (flush or an evicting store)
                    if tier == Tier::Quick && !ms.iter().any(|t| matches!(t, T::Flush | T::SetBig | T::AppendBig)) {
                        continue;
                    }
                    p3.push(mk(init, ms.iter().map(|t| vec![*t]).collect(), K, other, keys.clone(), policy));
                }
                if tier == Tier::Thorough {
                    let core = [T::Get, T::Set, T::Del, T::Flush, T::SetOther, if policy == Policy::None { T::Append } else { T::SetBig }];
                    let mut seqs: Vec<Vec<T>> = vec![];
                    for a in core {
                        for b in core {
                            seqs.push(vec![a, b]);
                        }
                    }
                    for i in 0..seqs.len() {
                        for j in i..seqs.len() {
                            p22.push(mk(init, vec![seqs[i].clone(), seqs[j].clone()], K, other, keys.clone(), policy));
                        }
                    }
                }
            }
            // evicting programs branch on every victim: bound them; the plain ones saturate
            let b2 = if tier == Tier::Quick { 3 } else if policy == Policy::None { 64 } else { 5 };
            fams.push(Family { name: format!("2x1/{}/{}", pname, kname), programs: p2, opts: SchedOpts { max_bound: b2, ..o } });
            // quick: every victim of every eviction is a branch - 3 evicting clients get bound 1
            let b3 = if tier == Tier::Quick && policy != Policy::None { 1 } else { o.max_bound };
            fams.push(Family { name: format!("3x1/{}/{}", pname, kname), programs: p3, opts: SchedOpts { max_bound: b3, ..o } });
            if !p22.is_empty() {
                fams.push(Family { name: format!("2x2/{}/{}", pname, kname), programs: p22, opts: SchedOpts { max_bound: 2, ..o } });
            }
        }
    }
    // a single client must terminate too (eviction loop, flush)
    let keys = vec![K.to_vec(), same.clone()];
    let mut p1 = vec![];
    for init in INITS {
        for t in alpha_evict {
            p1.push(mk(init, vec![vec![t, T::SetBig]], K, &same, keys.clone(), Policy::Random(10)));
            p1.push(mk(init, vec![vec![t, T::SetBig]], K, &same, keys.clone(), Policy::Random(60)));
        }
    }
    fams.push(Family { name: "1x2/random-tight".into(), programs: p1, opts: o });
    // error paths return too: a refused (stale CAS, absent key, non-numeric) command followed by the
    // same kind of command, on one client and across two
    let mut pe = vec![];
    let refused: Vec<Vec<T>> = vec![
        vec![T::AppendStale, T::Append],
        vec![T::PrependStale, T::Prepend],
        vec![T::SetStale, T::Set],
        vec![T::DelStale, T::Del],
        vec![T::AppendStale, T::AppendStale],
    ];
    for init in INITS {
        for r in &refused {
            pe.push(mk(init, vec![r.clone()], K, &same, keys.clone(), Policy::None));
            pe.push(mk(init, vec![vec![r[0]], vec![r[1]]], K, &same, keys.clone(), Policy::None));
            pe.push(mk(init, vec![r.clone(), vec![T::Get]], K, &same, keys.clone(), Policy::None));
        }
    }
    fams.push(Family { name: "refused-then-again".into(), programs: pe, opts: o });
    fams
}

pub fn c14_families(tier: Tier) -> Vec<Family> {
    let (same, diff) = sibling_keys(K);
    let mut fams = vec![];
    // no memory pressure during the race (limit 400), then sequential stores fill the cache: any
    // mis-accounting caused by the race itself shows when the limit is reached
    {
        let mut o = opts(if tier == Tier::Quick { 2 } else { 3 }, tier);
        o.check_lin = false;
        o.c14 = true;
        o.c14_clause = "over-limit-after-quiet-race";
        let alpha = [T::Set, T::SetBig, T::AppendBig, T::Incr, T::Del, T::Get, T::SetOther, T::DelOther];
        let stores = [T::Set, T::SetBig, T::AppendBig, T::Incr, T::SetOther];
        for (kname, other) in [("same-shard", &same), ("other-shard", &diff)] {
            let keys = vec![K.to_vec(), other.clone()];
            let mut p2 = vec![];
            for init in [Init::Absent, Init::Present] {
                for ms in multisets(&alpha, 2) {
                    if !ms.iter().any(|t| stores.contains(t)) {
                        continue;
                    }
                    p2.push(mk(init, ms.iter().map(|t| vec![*t]).collect(), K, other, keys.clone(), Policy::Random(400)));
                }
            }
            fams.push(Family { name: format!("2x1/L=400-then-fill/{}", kname), programs: p2, opts: o });
        }
    }
    let alpha = [T::Set, T::SetBig, T::AppendBig, T::Incr, T::SetOther, T::Del, T::Get];
    let stores = [T::Set, T::SetBig, T::AppendBig, T::Incr, T::SetOther];
    let mut o = opts(if tier == Tier::Quick { 2 } else { 3 }, tier);
    o.check_lin = false;
    o.c14 = true;
    for limit in [10u64, 60, 80] {
        for (kname, other) in [("same-shard", &same), ("other-shard", &diff)] {
            let keys = vec![K.to_vec(), other.clone()];
            let mut p2 = vec![];
            let mut p3 = vec![];
            for init in [Init::Absent, Init::Present] {
                for ms in multisets(&alpha, 2) {
                    if !ms.iter().any(|t| stores.contains(t)) {
                        continue;
                    }
                    p2.push(mk(init, ms.iter().map(|t| vec![*t]).collect(), K, other, keys.clone(), Policy::Random(limit)));
                }
                for ms in multisets(&stores, 3) {
                    if tier == Tier::Quick && limit != 60 {
                        continue;
                    }
                    p3.push(mk(init, ms.iter().map(|t| vec![*t]).collect(), K, other, keys.clone(), Policy::Random(limit)));
                }
            }
            fams.push(Family { name: format!("2x1/L={}/{}", limit, kname), programs: p2, opts: SchedOpts { max_bound: if tier == Tier::Quick { 2 } else { 3 }, ..o } });
            // 2 clients x 2 ops: a racing pair followed by further stores (mis-accounting caused by
            // the race must not let the following stores exceed the bound)
            if limit >= 60 {
                let firsts = [T::Set, T::Del, T::SetBig, T::Incr];
                let seconds = [T::SetBig, T::SetOther];
                let mut p22 = vec![];
                for init in [Init::Present] {
                    for a in firsts {
                        for b in firsts {
                            if (a as u8) > (b as u8) {
                                continue;
                            }
                            for c in seconds {
                                for d in seconds {
                                    if tier == Tier::Quick && c != d {
                                        continue;
                                    }
                                    p22.push(mk(init, vec![vec![a, c], vec![b, d]], K, other, keys.clone(), Policy::Random(limit)));
                                }
                            }
                        }
                    }
                }
                fams.push(Family { name: format!("2x2/L={}/{}", limit, kname), programs: p22, opts: SchedOpts { max_bound: if tier == Tier::Quick { 1 } else { 2 }, ..o } });
            }
            if !p3.is_empty() {
                fams.push(Family { name: format!("3x1/L={}/{}", limit, kname), programs: p3, opts: SchedOpts { max_bound: if tier == Tier::Quick { 1 } else { 2 }, ..o } });
            }
        }
    }
    fams
}

/// C15, concurrent part: programs whose commands account exactly when run alone (deletes, stores
/// under fresh keys, reads) - the accounting must still be exact under every interleaving.
pub fn c15_families(tier: Tier) -> Vec<Family> {
    let (same, diff) = sibling_keys(K);
    let mut fams = vec![];
    let alpha = [T::Del, T::DelOther, T::SetNew, T::Get, T::DelCur];
    let mut o = opts(if tier == Tier::Quick { 3 } else { 64 }, tier);
    o.check_lin = false;
    o.c15 = true;
    for (kname, other) in [("same-shard", &same), ("other-shard", &diff)] {
        let keys = vec![K.to_vec(), other.clone()];
        let mut p2 = vec![];
        let mut p3 = vec![];
        for init in [Init::Present, Init::Absent] {
            for ms in multisets(&alpha, 2) {
                p2.push(mk(init, ms.iter().map(|t| vec![*t]).collect(), K, other, keys.clone(), Policy::Random(4000)));
            }
            for ms in multisets(&alpha, 3) {
                p3.push(mk(init, ms.iter().map(|t| vec![*t]).collect(), K, other, keys.clone(), Policy::Random(4000)));
            }
        }
        fams.push(Family { name: format!("2x1/{}", kname), programs: p2, opts: o });
        fams.push(Family { name: format!("3x1/{}", kname), programs: p3, opts: SchedOpts { max_bound: if tier == Tier::Quick { 2 } else { 3 }, ..o } });
    }
    // a store of an absent key (exact when run alone) racing deletes and reads of that very key:
    // publishing the record and accounting for it are two steps a delete can fall between
    let keys = vec![K.to_vec()];
    let mut p = vec![];
    for st in [T::Set, T::SetBig, T::Add] {
        for other in [vec![T::Del], vec![T::Get], vec![T::Del, T::Get], vec![T::Get, T::Del], vec![T::Del, T::Del]] {
            p.push(mk(Init::Absent, vec![vec![st], other.clone()], K, K, keys.clone(), Policy::Random(4000)));
        }
        p.push(mk(Init::Absent, vec![vec![st], vec![T::Del], vec![T::SetNew]], K, K, keys.clone(), Policy::Random(4000)));
    }
    fams.push(Family { name: "absent-key-store-vs-delete".into(), programs: p, opts: o });
    // an expired, uncollected item met by several clients at once: collecting it is one removal,
    // however many of them see it (lazy expiry leaves its bytes accounted on the unchanged tree -
    // recorded as over-count; under-count is something else)
    let mut p = vec![];
    for prog in [
        vec![vec![T::Get], vec![T::Get]],
        vec![vec![T::Get], vec![T::Del]],
        vec![vec![T::Get], vec![T::Append]],
        vec![vec![T::Get], vec![T::Get], vec![T::Get]],
        vec![vec![T::Get, T::Get], vec![T::Get]],
    ] {
        p.push(mk(Init::Expired, prog, K, K, keys.clone(), Policy::Random(4000)));
    }
    fams.push(Family { name: "expired-item-met-concurrently".into(), programs: p, opts: o });
    // stores that have to evict (the counter is above the limit when they arrive), racing each other
    // and racing deletes of the records they may pick as victims, every victim choice: a record
    // leaves the store once and is subtracted once, whoever takes it out
    let (same, _) = sibling_keys(K);
    let keys = vec![K.to_vec(), same.clone()];
    let mut p = vec![];
    for prog in [
        vec![vec![T::SetNew], vec![T::SetNew]],
        vec![vec![T::SetNew], vec![T::Del]],
        vec![vec![T::SetNew], vec![T::DelOther]],
        vec![vec![T::SetNew], vec![T::Del, T::DelOther]],
        vec![vec![T::SetNew], vec![T::SetNew], vec![T::Del]],
    ] {
        p.push(tagged(mk(Init::Present, prog, K, &same, keys.clone(), Policy::Random(100)), "evicting/2-records"));
    }
    fams.push(Family { name: "evicting-store-vs-store-or-delete".into(), programs: p, opts: SchedOpts { max_bound: if tier == Tier::Quick { 2 } else { 3 }, ..o } });
    // the same with more records than the evictions can take, so that nobody meets an empty store
    let (same, diff) = sibling_keys(K);
    let keys = vec![K.to_vec(), same.clone(), diff.clone(), b"o99".to_vec()];
    let mut p = vec![];
    for prog in [
        vec![vec![T::SetNew], vec![T::SetNew]],
        vec![vec![T::SetNew], vec![T::Del]],
        vec![vec![T::SetNew], vec![T::DelOther]],
        vec![vec![T::SetNew], vec![T::Del, T::DelOther]],
    ] {
        p.push(tagged(mk(Init::Present, prog, K, &same, keys.clone(), Policy::Random(200)), "evicting/4-records"));
    }
    fams.push(Family { name: "evicting-store-vs-store-or-delete/4-records".into(), programs: p, opts: SchedOpts { max_bound: 2, ..o } });
    fams
}

/// C01, concurrent part: read-your-writes and key isolation while another client works on a
/// different key (same shard and other shard), every initial state; plus one client's own
/// store-then-get against a concurrent get of the same key.
pub fn c01_families(tier: Tier) -> Vec<Family> {
    let (same, diff) = sibling_keys(K);
    let mut fams = vec![];
    let o = opts(if tier == Tier::Quick { 3 } else { 64 }, tier);
    // client 0 works on K, client 1 on the other key (templates *Other) or reads K
    let mine: Vec<Vec<T>> = vec![vec![T::Set, T::Get], vec![T::Add, T::Get], vec![T::Get, T::Set], vec![T::Append, T::Get], vec![T::Incr, T::Get]];
    let theirs: Vec<Vec<T>> = vec![
        vec![T::SetOther],
        vec![T::GetOther],
        vec![T::DelOther],
        vec![T::SetOther, T::DelOther],
        vec![T::DelOther, T::SetOther],
        vec![T::SetOther, T::GetOther],
        vec![T::Get],
        vec![T::Get, T::Get],
        vec![T::Flush],
        // a pending delayed flush rewrites metadata of every item: it must not touch what is stored
        vec![T::FlushLater],
    ];
    for (kname, other) in [("same-shard", &same), ("other-shard", &diff)] {
        let keys = vec![K.to_vec(), other.clone()];
        let mut progs = vec![];
        for init in INITS {
            for a in &mine {
                for b in &theirs {
                    // read-modify-write commands racing a flush of their own key are C04's known
                    // non-atomicity (get then set), not C01's subject: flush only against set/get
                    if b.contains(&T::Flush) && a.iter().any(|t| !matches!(t, T::Set | T::Get)) {
                        continue;
                    }
                    progs.push(mk(init, vec![a.clone(), b.clone()], K, other, keys.clone(), Policy::None));
                }
            }
        }
        fams.push(Family { name: format!("own-key-vs-other/{}", kname), programs: progs, opts: o });
    }
    fams
}

/// C05, concurrent part: an expired (uncollected) item is absent for every presence-dependent
/// command also while another client is collecting it; it never becomes visible again.
pub fn c05_families(tier: Tier) -> Vec<Family> {
    let keys = vec![K.to_vec()];
    let o = opts(if tier == Tier::Quick { 3 } else { 64 }, tier);
    let cmds = [T::Get, T::Add, T::Replace, T::Append, T::Prepend, T::Incr, T::Decr, T::Del];
    let mut p2 = vec![];
    let mut p3 = vec![];
    for c in cmds {
        p2.push(mk(Init::Expired, vec![vec![c], vec![T::Get]], K, K, keys.clone(), Policy::None));
        p2.push(mk(Init::Expired, vec![vec![c, T::Get], vec![T::Get]], K, K, keys.clone(), Policy::None));
        p2.push(mk(Init::Expired, vec![vec![c], vec![T::Get, T::Get]], K, K, keys.clone(), Policy::None));
        if !matches!(c, T::Add | T::Incr | T::Decr) {
            // two non-creating commands (creators racing each other are the known C04 findings)
            for d in [T::Replace, T::Append, T::Prepend, T::Del] {
                p2.push(mk(Init::Expired, vec![vec![c], vec![d]], K, K, keys.clone(), Policy::None));
            }
        }
        p3.push(mk(Init::Expired, vec![vec![c], vec![T::Get], vec![T::Get]], K, K, keys.clone(), Policy::None));
    }
    // a store with a TTL racing any other command, then time passes: however the race went, the
    // stored record expires at its own timestamp + TTL
    let mut pt = vec![];
    for init in [Init::Absent, Init::Present] {
        for st in [T::SetTtl, T::AddTtl] {
            for other in [T::Flush, T::FlushLater, T::Get, T::Del, T::Set, T::SetTtl, T::Append, T::Incr, T::SetOther] {
                pt.push(mk(init, vec![vec![st], vec![other]], K, b"o01", vec![K.to_vec(), b"o01".to_vec()], Policy::None));
            }
            pt.push(mk(init, vec![vec![st], vec![T::Flush], vec![T::Get]], K, b"o01", vec![K.to_vec(), b"o01".to_vec()], Policy::None));
        }
    }
    let ot = SchedOpts { advance_after: 5, check_lin: false, ..o };
    vec![
        Family { name: "ttl-store-vs-cmd-then-time-passes".into(), programs: pt, opts: ot },
        Family { name: "expired/cmd-vs-get".into(), programs: p2, opts: o },
        Family { name: "expired/cmd-vs-get-vs-get".into(), programs: p3, opts: SchedOpts { max_bound: if tier == Tier::Quick { 2 } else { 64 }, ..o } },
    ]
}
