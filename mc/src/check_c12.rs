//! C12: pipelining - in-order execution, one response per loud request, quiet rules, quit rules.

use crate::check_c09::par_map;
use crate::cmd::Cmd;
use crate::linspec::{lin_step, LItem, LKey, LState};
use crate::net::{self, NetCfg};
use crate::props::{self, Tier};
use crate::report::{CheckOutcome, Violation};
use crate::wire::{self, op, st, Req};
use serde_json::json;
use std::collections::BTreeMap;
use std::time::Instant;

#[derive(Clone, Debug)]
enum Elt {
    /// implemented command: the sequential specification decides what must be answered
    C(Cmd),
    /// protocol opcode the server does not implement: exactly one response (any status)
    Unimpl(String, Req),
    /// opcode value the protocol does not define: an error response or closing the connection
    Undefined(String, Req),
    /// a request whose body exceeds the item size limit: exactly one response, status 0x03
    Oversized(String, Req),
    Quit,
    QuitQ,
}

impl Elt {
    fn name(&self) -> String {
        match self {
            Elt::C(c) => {
                let k = c.key().map(|k| String::from_utf8_lossy(k).to_string()).unwrap_or_default();
                format!("{}{}{}", c.kind(), if c.is_quiet() { "q" } else { "" }, if k.is_empty() { String::new() } else { format!("({})", k) })
            }
            Elt::Unimpl(n, _) | Elt::Undefined(n, _) | Elt::Oversized(n, _) => n.clone(),
            Elt::Quit => "quit".into(),
            Elt::QuitQ => "quitq".into(),
        }
    }
    fn opname(&self) -> String {
        match self {
            Elt::C(c) => wire::op_name(c.opcode()).to_string(),
            Elt::Unimpl(n, _) | Elt::Undefined(n, _) | Elt::Oversized(n, _) => n.clone(),
            Elt::Quit => "quit".into(),
            Elt::QuitQ => "quitq".into(),
        }
    }
    fn req(&self, opaque: u32) -> Req {
        match self {
            Elt::C(c) => c.to_req(0, opaque).unwrap(),
            Elt::Unimpl(_, r) | Elt::Undefined(_, r) | Elt::Oversized(_, r) => r.clone().opaque(opaque),
            Elt::Quit => Req::bare(op::QUIT).opaque(opaque),
            Elt::QuitQ => Req::bare(op::QUITQ).opaque(opaque),
        }
    }
}

fn alphabet() -> Vec<Elt> {
    use crate::cmd::CasArg::Zero;
    let k = b"k";
    let m = b"m"; // never stored by the prelude
    let n = b"n";
    let q = props::quiet;
    let mut v: Vec<Elt> = vec![];
    let mut c = |x: Cmd| v.push(Elt::C(x));
    c(props::get(k));
    c(q(props::get(k)));
    c(props::getk(k));
    c(q(props::getk(k)));
    c(props::get(m));
    c(q(props::get(m)));
    c(q(props::getk(m)));
    c(props::set(k, b"7", 2, 0));
    c(q(props::set(k, b"8", 3, 0)));
    c(props::add(k, b"9", 4, 0));
    c(q(props::add(k, b"9", 4, 0)));
    c(props::add(n, b"1", 5, 0));
    c(q(props::add(n, b"2", 6, 0)));
    c(props::replace(k, b"3", 7, 0));
    c(q(props::replace(k, b"4", 8, 0)));
    c(q(props::replace(m, b"4", 8, 0)));
    c(props::delete(k, Zero));
    c(q(props::delete(k, Zero)));
    c(q(props::delete(m, Zero)));
    c(props::incr(k, 1, 0, 0, Zero));
    c(q(props::incr(k, 1, 0, 0, Zero)));
    c(props::decr(k, 1, 0, 0, Zero));
    c(q(props::decr(k, 1, 0, 0, Zero)));
    c(q(props::incr(m, 1, 0, 0xffff_ffff, Zero)));
    c(props::append(k, b"0", Zero));
    c(q(props::append(k, b"0", Zero)));
    c(q(props::append(m, b"0", Zero)));
    c(props::prepend(k, b"1", Zero));
    c(q(props::prepend(k, b"1", Zero)));
    c(props::flush(None));
    c(q(props::flush(None)));
    c(Cmd::Noop);
    c(Cmd::Version);
    c(Cmd::Stat);
    let e4 = 10u32.to_be_bytes();
    for (name, opc) in [("touch", op::TOUCH), ("gat", op::GAT), ("gatq", op::GATQ), ("gatk", op::GATK), ("gatkq", op::GATKQ)] {
        v.push(Elt::Unimpl(name.into(), Req::new(opc).key(k).extras(&e4)));
    }
    v.push(Elt::Unimpl("sasl_list".into(), Req::bare(op::SASL_LIST)));
    v.push(Elt::Unimpl("sasl_auth".into(), Req::new(op::SASL_AUTH).key(b"PLAIN").value(b"\0u\0p")));
    v.push(Elt::Unimpl("sasl_step".into(), Req::new(op::SASL_STEP).key(b"PLAIN").value(b"x")));
    v.push(Elt::Oversized("set-oversized".into(), Req::store(op::SET, b"big", &vec![b'B'; 1500], 0, 0, 0)));
    v.push(Elt::Oversized("setq-oversized".into(), Req::store(op::SETQ, b"big", &vec![b'B'; 1500], 0, 0, 0)));
    v.push(Elt::Undefined("op0x1b".into(), Req::bare(0x1b)));
    v.push(Elt::Undefined("op0x1f".into(), Req::bare(0x1f)));
    v.push(Elt::Quit);
    v.push(Elt::QuitQ);
    v
}

struct Outcome {
    viol: Option<(String, String)>,
    chunks: u64,
    responses: u64,
}

/// `fin`: the whole stream in one write and the client's FIN right behind it, before the server runs.
fn run_stream(alpha: &[Elt], seq: &[usize], bytewise: bool, cuts: Option<&[usize]>, fin: bool, pace: u64) -> Result<Outcome, String> {
    let w = net::NetWorld::new(NetCfg::default())?;
    // prelude on its own connection: k = "5" flags 1
    let tok = {
        let mut c = w.connect()?;
        let io = c.step(&w, &Req::store(op::SET, b"k", b"5", 1, 0, 0).bytes());
        let (r, _) = wire::split_responses(&c.got);
        // the prelude is a client like any other: one plain set on a fresh server, one answer
        if io.is_err() || r.len() != 1 || r[0].status != st::OK || r[0].opcode != op::SET {
            return Ok(Outcome {
                viol: Some((
                    "next-connection|disturbed".into(),
                    format!(
                        "a fresh connection to a fresh server sent one set and received {:?}{} (state carried over from other connections of the process)",
                        r.iter().map(|x| x.short()).collect::<Vec<_>>(),
                        if io.is_err() { " and lost the connection" } else { "" }
                    ),
                )),
                chunks: 1,
                responses: r.len() as u64,
            });
        }
        let t = r[0].cas;
        c.close(&w);
        t
    };
    // the vbucket field is reserved: every other request carries a non-zero one, nothing may change
    let reqs: Vec<Req> = seq
        .iter()
        .enumerate()
        .map(|(i, e)| {
            let mut r = alpha[*e].req(if i == 0 { 0xffff_ffff } else { 0x5000 + i as u32 * 0x11 });
            if i % 2 == 1 {
                r.vbucket = 0x0102;
            }
            r
        })
        .collect();
    let mut bytes = vec![];
    for r in &reqs {
        bytes.extend(r.bytes());
    }
    let mut c = w.connect()?;
    let mut chunks = 0u64;
    if bytewise {
        for b in bytes.chunks(1) {
            if c.step(&w, b).is_err() {
                break;
            }
            chunks += 1;
        }
    } else if let Some(cuts) = cuts {
        for ch in crate::corpus::split(&bytes, cuts) {
            if c.step(&w, ch).is_err() {
                break;
            }
            chunks += 1;
            // a slow sender: virtual seconds pass between two pieces (far below the idle timeout)
            if pace > 0 {
                w.advance(pace);
            }
        }
    } else if fin {
        let _ = c.send(&w, &bytes);
        c.shutdown_write(&w);
        chunks += 1;
    } else {
        let _ = c.step(&w, &bytes);
        chunks += 1;
    }
    w.settle();
    c.pump();
    // the next connection to the same server: nothing of this stream may reach it (bytes left
    // behind a quit or an error are never executed - not here, not later)
    let follow: Option<Vec<u8>> = match w.connect() {
        Ok(mut c2) => {
            let _ = c2.step(&w, &Req::bare(op::NOOP).opaque(0xfeed_0001).bytes());
            Some(c2.got.clone())
        }
        Err(_) => None,
    };
    let dump = w.dump();
    let (resps, residue) = wire::split_responses(&c.got);
    // ---- oracle ----
    let mut s = LState::default();
    s.keys.insert(b"k".to_vec(), LKey { item: Some(LItem { value: b"5".to_vec(), flags: 1, tok }), tomb: false });
    let mut ri = 0usize;
    let mut expect_close = false;
    let mut problem: Option<(String, String)> = None;
    let names: Vec<String> = seq.iter().map(|e| alpha[*e].name()).collect();
    for (i, e) in seq.iter().enumerate() {
        let elt = &alpha[*e];
        let req = &reqs[i];
        let r = if ri < resps.len() && resps[ri].opaque == req.opaque {
            ri += 1;
            Some(resps[ri - 1].clone())
        } else {
            None
        };
        if let Some(r) = &r {
            if let Err(f) = wire::check_frame(req.opcode, req.opaque, &req.key, r) {
                problem = Some((format!("frame|{}", elt.opname()), format!("response to {} malformed: {}", elt.name(), f)));
                break;
            }
        }
        match elt {
            Elt::C(cmd) => {
                if !lin_step(&mut s, cmd, 0, &r) {
                    let clause = if r.is_none() && !cmd.is_quiet() { "no-response" } else { "response" };
                    problem = Some((
                        format!("{}|{}", clause, elt.opname()),
                        format!(
                            "request #{} {} answered {} which the sequential specification does not allow in state {:?}",
                            i,
                            elt.name(),
                            r.as_ref().map(|x| x.short()).unwrap_or("(nothing)".into()),
                            s.keys.get(cmd.key().unwrap_or(b"")).map(|k| k.item.as_ref().map(|it| wire::show(&it.value)))
                        ),
                    ));
                    break;
                }
            }
            Elt::Unimpl(..) => {
                if r.is_none() {
                    problem = Some((format!("no-response|{}", elt.opname()), format!("request #{} {} (a protocol opcode) got no response", i, elt.name())));
                    break;
                }
            }
            Elt::Oversized(..) => match &r {
                Some(x) if x.status == st::TOO_LARGE => {}
                other => {
                    problem = Some((
                        format!("no-response|{}", elt.opname()),
                        format!("request #{} {} answered {}, expected exactly one 0x03", i, elt.name(), other.as_ref().map(|x| x.short()).unwrap_or("(nothing)".into())),
                    ));
                    break;
                }
            },
            Elt::Undefined(..) => match &r {
                Some(x) if x.status != st::OK => {}
                Some(x) => {
                    problem = Some((format!("response|{}", elt.opname()), format!("undefined opcode answered with success: {}", x.short())));
                    break;
                }
                None => {
                    expect_close = true; // the only other allowed behaviour
                }
            },
            Elt::Quit => {
                match &r {
                    Some(x) if x.status == st::OK => {}
                    other => {
                        problem = Some((
                            "quit|quit".into(),
                            format!("quit answered {}", other.as_ref().map(|x| x.short()).unwrap_or("(nothing)".into())),
                        ));
                        break;
                    }
                }
                expect_close = true;
            }
            Elt::QuitQ => {
                if r.is_some() {
                    problem = Some(("quit|quitq".into(), "quitq was answered".into()));
                    break;
                }
                expect_close = true;
            }
        }
        if expect_close {
            break;
        }
    }
    if problem.is_none() {
        if residue != 0 {
            problem = Some(("frame|residue".into(), format!("{} stray bytes in the response stream", residue)));
        } else if ri != resps.len() {
            problem = Some((
                "extra-response|".to_string() + &wire::op_name(resps[ri].opcode),
                format!("unexpected response {} (out of order, duplicated, or sent for a request after quit)", resps[ri].short()),
            ));
        } else if expect_close && !c.eof {
            problem = Some(("quit|not-closed".into(), "the connection was not closed after quit/quitq/undefined opcode".into()));
        } else if !expect_close && c.eof && !fin {
            problem = Some(("closed|unexpected".into(), "the server closed the connection although every request was valid".into()));
        }
    }
    if problem.is_none() {
        let ok = match &follow {
            Some(f) => {
                let (fr, fres) = wire::split_responses(f);
                fres == 0 && fr.len() == 1 && fr[0].opcode == op::NOOP && fr[0].status == st::OK && fr[0].opaque == 0xfeed_0001
            }
            None => false,
        };
        if !ok {
            problem = Some((
                "next-connection|disturbed".into(),
                format!(
                    "a fresh connection opened after the stream sent one noop and received {}",
                    match &follow {
                        Some(f) => format!("{:?}", wire::split_responses(f).0.iter().map(|r| r.short()).collect::<Vec<_>>()),
                        None => "no connection".to_string(),
                    }
                ),
            ));
        }
    }
    if problem.is_none() {
        // nothing after quit was executed, everything before was: the store equals the specification state
        for key in [&b"k"[..], b"m", b"n"] {
            let want = s.keys.get(key).and_then(|k| k.item.as_ref());
            let have = dump.iter().find(|d| d.key == key);
            let ok = match (want, have) {
                (None, None) => true,
                (Some(it), Some(d)) => it.value == d.value && (it.flags == u32::MAX || it.flags == d.flags),
                _ => false,
            };
            if !ok {
                problem = Some((
                    "effects|".to_string() + &String::from_utf8_lossy(key),
                    format!(
                        "after the stream the store holds {:?} for {} but executing exactly the requests before quit in order gives {:?}",
                        have.map(|d| wire::show(&d.value)),
                        wire::show(key),
                        want.map(|it| wire::show(&it.value))
                    ),
                ));
                break;
            }
        }
    }
    let viol = problem.map(|(sig, what)| {
        (
            sig,
            format!(
                "stream [{}] ({}): {} ; responses: {}",
                names.join(" "),
                if bytewise { "byte-at-a-time" } else if cuts.is_some() && pace > 0 { "cut, the pieces 2 s apart" } else if cuts.is_some() { "cut" } else if fin { "one segment, then FIN at once" } else { "one segment" },
                what,
                resps.iter().map(|r| format!("{}:{:#x}", wire::op_name(r.opcode), r.status)).collect::<Vec<_>>().join(" ")
            ),
        )
    });
    Ok(Outcome { viol, chunks, responses: resps.len() as u64 })
}

/// `n` requests and a final quit in one write: loud noops (every one answered, in order, then quit's
/// answer and the end of the stream), or quiet sets of one key (all silent) followed by a get that
/// must see the last of them.
fn long_pipeline(n: usize, quiet: bool) -> Result<Option<String>, String> {
    let w = net::NetWorld::new(NetCfg::default())?;
    let mut c = w.connect()?;
    let mut bytes = Vec::with_capacity(n * 40);
    for i in 0..n {
        if quiet {
            bytes.extend(Req::store(op::SETQ, b"lp", format!("{}", i).as_bytes(), 3, 0, 0).opaque(i as u32).bytes());
        } else {
            bytes.extend(Req::bare(op::NOOP).opaque(i as u32).bytes());
        }
    }
    if quiet {
        bytes.extend(Req::get(op::GET, b"lp").opaque(0x7fff_0001).bytes());
    }
    bytes.extend(Req::bare(op::QUIT).opaque(0x7fff_0002).bytes());
    let what = |s: String| Ok(Some(format!("{} pipelined {} then {}quit in one write: {}", n, if quiet { "setq" } else { "noop" }, if quiet { "get, " } else { "" }, s)));
    if let Err(e) = c.send(&w, &bytes) {
        return what(format!("the connection was lost while sending ({})", e));
    }
    for _ in 0..200_000 {
        w.settle();
        let before = c.got.len();
        c.pump();
        if c.eof || c.got.len() == before {
            break;
        }
    }
    w.settle();
    c.pump();
    let (resps, residue) = wire::split_responses(&c.got);
    let want = if quiet { 2 } else { n + 1 };
    if residue != 0 || resps.len() != want {
        return what(format!("{} whole responses arrived ({} stray bytes), expected {}; connection {}", resps.len(), residue, want, if c.eof { "closed" } else { "still open" }));
    }
    if quiet {
        let last = format!("{}", n - 1);
        if resps[0].opcode != op::GET || resps[0].status != st::OK || resps[0].value() != last.as_bytes() {
            return what(format!("the get answered {} but the last quiet set stored {:?}", resps[0].short(), last));
        }
    } else if let Some(i) = (0..n).find(|i| resps[*i].opcode != op::NOOP || resps[*i].opaque != *i as u32 || resps[*i].status != st::OK) {
        return what(format!("response #{} is {}", i, resps[i].short()));
    }
    let q = &resps[want - 1];
    if q.opcode != op::QUIT || q.status != st::OK || q.opaque != 0x7fff_0002 {
        return what(format!("the last response is {}, expected quit's", q.short()));
    }
    if !c.eof {
        return what("the connection was not closed after quit".into());
    }
    Ok(None)
}

/// A large store (within the limit) with requests pipelined behind it: set big, setq small, get
/// small, get big, noop - in one write, and in two pieces cut 1 .. 30 bytes behind the large request
/// (inside the next request's header, at its end, inside its body).  Every loud request is answered
/// in order, the quiet store is executed, both values come back exactly.
pub fn large_then_followers(tier: Tier) -> (u64, Vec<(String, String)>, Option<String>) {
    let mut out: Vec<(String, String)> = vec![];
    let mut n = 0u64;
    let sizes: &[usize] = if tier == Tier::Quick { &[5000, 70_000, 300_000] } else { &[4097, 5000, 20_000, 65_537, 70_000, 300_000, 1_000_000] };
    for &size in sizes {
        let value: Vec<u8> = (0..size).map(|i| (i % 239) as u8).collect();
        let big = Req::store(op::SET, b"big", &value, 0x77, 0, 0).opaque(0x10).bytes();
        let mut tail = Req::store(op::SETQ, b"small", b"f1", 5, 0, 0).opaque(0x11).bytes();
        tail.extend(Req::get(op::GET, b"small").opaque(0x12).bytes());
        tail.extend(Req::get(op::GET, b"big").opaque(0x13).bytes());
        tail.extend(Req::bare(op::NOOP).opaque(0x14).bytes());
        let mut all = big.clone();
        all.extend(&tail);
        let mut cuts: Vec<Option<usize>> = vec![None];
        for d in [1usize, 12, 23, 24, 25, 30, 40] {
            cuts.push(Some(big.len() + d));
        }
        cuts.push(Some(big.len()));
        cuts.push(Some(big.len() - 1));
        for cut in cuts {
            n += 1;
            let r = (|| -> Result<Option<String>, String> {
                let w = net::NetWorld::new(NetCfg { item_limit: 1 << 20, ..Default::default() })?;
                let mut c = w.connect()?;
                let sent = match cut {
                    None => c.step(&w, &all),
                    Some(k) => c.step(&w, &all[..k]).and_then(|_| c.step(&w, &all[k..])),
                };
                if let Err(e) = sent {
                    return Ok(Some(format!("the connection was lost while sending ({})", e)));
                }
                for _ in 0..2000 {
                    w.settle();
                    let before = c.got.len();
                    c.pump();
                    if c.got.len() == before {
                        break;
                    }
                }
                let (resps, residue) = wire::split_responses(&c.got);
                let seen: Vec<(u8, u16, u32)> = resps.iter().map(|r| (r.opcode, r.status, r.opaque)).collect();
                let want = vec![(op::SET, st::OK, 0x10), (op::GET, st::OK, 0x12), (op::GET, st::OK, 0x13), (op::NOOP, st::OK, 0x14)];
                if residue != 0 || seen != want {
                    return Ok(Some(format!("answered {:?} ({} stray bytes), expected {:?}; connection {}", seen, residue, want, if c.eof { "closed" } else { "open" })));
                }
                if resps[1].value() != b"f1" || resps[1].extras() != &5u32.to_be_bytes()[..] {
                    return Ok(Some(format!("the item stored quietly behind the large store came back as {}", resps[1].short())));
                }
                if resps[2].value() != &value[..] || resps[2].extras() != &0x77u32.to_be_bytes()[..] {
                    return Ok(Some("the large item did not come back as stored".into()));
                }
                Ok(None)
            })();
            match r {
                Ok(Some(what)) => out.push((
                    format!("behind-large-store|{}", if cut.is_none() { "one-write" } else { "two-pieces" }),
                    format!(
                        "set of a {}-byte value, setq, get, get, noop {}: {}",
                        size,
                        match cut {
                            None => "in one write".to_string(),
                            Some(k) => format!("in two pieces, the second starting {} bytes behind the large request", k as i64 - big.len() as i64),
                        },
                        what
                    ),
                )),
                Ok(None) => {}
                Err(e) => return (n, out, Some(e)),
            }
        }
    }
    (n, out, None)
}

/// C19 over TCP, long runs: `n` commands of one kind followed by a noop, in one write - once loud,
/// once as their quiet twins.  The quiet run is silent up to the noop's answer, the loud run answers
/// every command, and both leave the same items in the store.
pub fn quiet_vs_loud_long(tier: Tier, threads: usize) -> (u64, Vec<(String, String)>, Option<String>) {
    let ns: Vec<usize> = if tier == Tier::Quick { vec![19, 20, 21, 25, 130, 300] } else { vec![19, 20, 21, 25, 64, 65, 130, 300, 1100, 5000] };
    let kinds = ["set", "get-miss", "incr", "append"];
    let mut cases: Vec<(usize, &str)> = vec![];
    for n in &ns {
        for k in kinds {
            cases.push((*n, k));
        }
    }
    let run = |n: usize, kind: &str, quiet: bool, fin: bool| -> Result<(Vec<wire::Resp>, u32, Content, bool), String> {
        let w = net::NetWorld::new(NetCfg::default())?;
        let mut c = w.connect()?;
        let _ = c.step(&w, &Req::store(op::SET, b"ctr", b"0", 1, 0, 0).opaque(1).bytes());
        let _ = c.step(&w, &Req::store(op::SET, b"txt", b"", 2, 0, 0).opaque(2).bytes());
        c.got.clear();
        let mut bytes = vec![];
        for i in 0..n {
            let r = match kind {
                "set" => Req::store(if quiet { op::SETQ } else { op::SET }, format!("s{}", i % 7).as_bytes(), format!("{}", i).as_bytes(), 3, 0, 0),
                "get-miss" => Req::get(if quiet { op::GETQ } else { op::GET }, b"nope"),
                "incr" => Req::delta(if quiet { op::INCRQ } else { op::INCR }, b"ctr", 1, 0, 0, 0),
                _ => Req::concat(if quiet { op::APPENDQ } else { op::APPEND }, b"txt", b"x", 0),
            };
            bytes.extend(r.opaque(0x100 + i as u32).bytes());
        }
        bytes.extend(Req::bare(op::NOOP).opaque(0x7777).bytes());
        let lost = c.send(&w, &bytes).is_err();
        if fin {
            // fire and forget: the client's FIN is there before the server has run
            c.shutdown_write(&w);
        }
        for _ in 0..20_000 {
            w.settle();
            let before = c.got.len();
            c.pump();
            if c.got.len() == before {
                break;
            }
        }
        let (resps, residue) = wire::split_responses(&c.got);
        Ok((resps, residue as u32, content(&w.dump()), lost || (c.eof && !fin)))
    };
    let res = par_map(&cases, threads, |_, (n, kind)| -> Result<Option<String>, String> {
        // the same pair of runs with the client's FIN right behind the burst: same answers, same store
        {
            let (lr, lres, lstore, llost) = run(*n, kind, false, true)?;
            let (qr, qres, qstore, qlost) = run(*n, kind, true, true)?;
            if llost || lres != 0 || lr.len() != n + 1 {
                return Ok(Some(format!("with the client's FIN right behind the burst the loud run received {} responses ({} stray bytes), expected {}", lr.len(), lres, n + 1)));
            }
            if qlost || qres != 0 || qr.len() != 1 || lstore != qstore {
                return Ok(Some(format!(
                    "with the client's FIN right behind the burst the quiet run received {} response(s) and left {} items, the loud run {} items (expected one response and the same store)",
                    qr.len(),
                    qstore.len(),
                    lstore.len()
                )));
            }
        }
        let (lr, lres, lstore, llost) = run(*n, kind, false, false)?;
        let (qr, qres, qstore, qlost) = run(*n, kind, true, false)?;
        if llost || lres != 0 || lr.len() != n + 1 || lr.last().map(|r| (r.opcode, r.opaque)) != Some((op::NOOP, 0x7777)) {
            return Ok(Some(format!("the loud run received {} responses ({} stray bytes{}), expected {}", lr.len(), lres, if llost { ", connection lost" } else { "" }, n + 1)));
        }
        if qlost || qres != 0 || qr.len() != 1 || qr[0].opcode != op::NOOP || qr[0].opaque != 0x7777 {
            return Ok(Some(format!(
                "the quiet run received {:?} ({} stray bytes{}), expected exactly the noop's answer",
                qr.iter().take(3).map(|r| r.short()).collect::<Vec<_>>(),
                qres,
                if qlost { ", connection lost" } else { "" }
            )));
        }
        if lstore != qstore {
            let diff = lstore.iter().zip(qstore.iter()).find(|(a, b)| a != b).map(|(a, b)| format!("{}={} vs {}={}", wire::show(&a.0), wire::show(&a.1), wire::show(&b.0), wire::show(&b.1)));
            return Ok(Some(format!("the stores differ after the loud and the quiet run ({} vs {} items; first difference {:?})", lstore.len(), qstore.len(), diff)));
        }
        Ok(None)
    });
    let mut out = vec![];
    let mut err = None;
    for ((n, kind), r) in cases.iter().zip(res.into_iter()) {
        match r {
            Err(e) => err = Some(e),
            Ok(None) => {}
            Ok(Some(what)) => out.push((format!("long-quiet-run|{}", kind), format!("{} x {} then noop in one write, loud and quiet: {}", n, kind, what))),
        }
    }
    (cases.len() as u64 * 2, out, err)
}

/// C16 at the socket: one client pipelines requests with small responses (noops, misses, counters)
/// and never reads, until the server is blocked on the full socket; other connections - one opened
/// before, one opened now - are still served, and when the first client finally reads, everything
/// it is owed arrives.
pub fn unread_small_responses(tier: Tier) -> (u64, Vec<(String, String)>, Option<String>) {
    let mut out = vec![];
    let mut n = 0u64;
    let kinds: &[&str] = if tier == Tier::Quick { &["noop", "get-miss"] } else { &["noop", "get-miss", "incr", "version"] };
    for kind in kinds {
        n += 1;
        crate::watchdog::working_on(format!("C16 socket: a client pipelines {} requests and never reads its responses; other connections must still be served", kind));
        let r = (|| -> Result<Option<String>, String> {
            let w = net::NetWorld::new(NetCfg::default())?;
            let mut early = w.connect()?;
            early.step(&w, &Req::bare(op::NOOP).opaque(1).bytes())?;
            let mut a = w.connect()?;
            let one = match *kind {
                "noop" => Req::bare(op::NOOP).opaque(7).bytes(),
                "get-miss" => Req::get(op::GET, b"nope").opaque(7).bytes(),
                "incr" => Req::delta(op::INCR, b"ctr", 1, 0, 0, 0).opaque(7).bytes(),
                _ => Req::bare(op::VERSION).opaque(7).bytes(),
            };
            // 24 MB of requests at most: far more than both socket buffers together
            let mut burst = Vec::with_capacity(one.len() * 50_000);
            for _ in 0..50_000 {
                burst.extend(&one);
            }
            let mut sent = 0usize;
            for _ in 0..20 {
                let k = a.send_never_reading(&w, &burst);
                sent += k;
                if k < burst.len() {
                    break;
                }
            }
            let requests = sent / one.len();
            // the server is blocked (or idle): the others are served
            let g0 = early.got.len();
            let io1 = early.step(&w, &Req::bare(op::NOOP).opaque(2).bytes());
            if io1.is_err() || wire::split_responses(&early.got[g0..]).0.len() != 1 {
                return Ok(Some(format!("after {} unread requests a connection opened earlier is not answered any more", requests)));
            }
            let mut fresh = w.connect()?;
            let io2 = fresh.step(&w, &Req::bare(op::NOOP).opaque(3).bytes());
            if io2.is_err() || wire::split_responses(&fresh.got).0.len() != 1 {
                return Ok(Some(format!("after {} unread requests a fresh connection is not served", requests)));
            }
            // and the reader that comes back gets everything it is owed
            for _ in 0..200_000 {
                a.pump();
                w.settle();
                let before = a.got.len();
                a.pump();
                if a.got.len() == before {
                    break;
                }
            }
            let (resps, residue) = wire::split_responses(&a.got);
            if residue != 0 || resps.len() != requests {
                return Ok(Some(format!("the client sent {} whole requests and, reading at last, received {} whole responses ({} stray bytes)", requests, resps.len(), residue)));
            }
            Ok(None)
        })();
        crate::watchdog::idle();
        match r {
            Ok(Some(what)) => out.push((format!("unread-small-responses|{}", kind), format!("a client pipelines {} requests without reading: {}", kind, what))),
            Ok(None) => {}
            Err(e) => return (n, out, Some(e)),
        }
    }
    // connections that are long gone - dropped by the idle timeout, reset, closed in the middle of a
    // request - must not block new ones: after several rounds of such endings under a small
    // connection limit a fresh connection is still served at once
    for ending in ["idle-timeout", "reset", "close-mid-request", "stall-inside-oversized-body", "stall-inside-request"] {
        n += 1;
        crate::watchdog::working_on(format!("C16 socket: {} rounds of connections ending by {}, then a fresh one", 3, ending));
        let r = (|| -> Result<Option<String>, String> {
            let w = net::NetWorld::new(NetCfg { conn_limit: 2, ..Default::default() })?;
            // clients that went silent keep their sockets open: it is the server that has to let go
            let mut kept: Vec<net::NetClient> = vec![];
            for round in 0..3 {
                let mut cs = vec![w.connect()?, w.connect()?];
                for (i, c) in cs.iter_mut().enumerate() {
                    let _ = c.step(&w, &Req::bare(op::NOOP).opaque(0x10 + i as u32).bytes());
                    if wire::split_responses(&c.got).0.len() != 1 {
                        return Ok(Some(format!("round {}: connection #{} of 2 (limit 2) is not served although every earlier connection has ended", round, i)));
                    }
                }
                match ending {
                    "idle-timeout" => {
                        w.advance(61);
                        for c in cs.iter_mut() {
                            c.pump();
                        }
                    }
                    "reset" => {
                        for c in cs.iter_mut() {
                            c.abort(&w);
                        }
                    }
                    "stall-inside-oversized-body" | "stall-inside-request" => {
                        // header and part of the body, then silence with the socket open: the idle
                        // timeout ends such a connection like any other
                        let big = if ending == "stall-inside-oversized-body" { 5000 } else { 600 };
                        let req = Req::store(op::SET, b"k", &vec![b'v'; big], 0, 0, 0).bytes();
                        for c in cs.iter_mut() {
                            let _ = c.step(&w, &req[..24 + 200]);
                        }
                        w.advance(61);
                        for c in cs.iter_mut() {
                            c.pump();
                        }
                    }
                    _ => {
                        let half = Req::store(op::SET, b"k", b"value", 0, 0, 0).bytes();
                        for c in cs.iter_mut() {
                            let _ = c.step(&w, &half[..30]);
                            c.close(&w);
                        }
                    }
                }
                if ending.starts_with("stall") || ending == "idle-timeout" {
                    kept.extend(cs);
                } else {
                    drop(cs);
                }
                w.settle();
            }
            let mut fresh = w.connect()?;
            let io = fresh.step(&w, &Req::bare(op::NOOP).opaque(0x99).bytes());
            if io.is_err() || wire::split_responses(&fresh.got).0.len() != 1 {
                return Ok(Some("after three rounds a fresh connection is not served: connections that are gone still block new ones".into()));
            }
            Ok(None)
        })();
        crate::watchdog::idle();
        match r {
            Ok(Some(what)) => out.push((format!("gone-connections-block|{}", ending), format!("limit 2, two connections per round ending by {}: {}", ending, what))),
            Ok(None) => {}
            Err(e) if e.starts_with("connect:") => out.push((format!("gone-connections-block|{}", ending), format!("limit 2, connections ending by {}: {}", ending, e))),
            Err(e) => return (n, out, Some(e)),
        }
    }
    (n, out, None)
}

type Content = Vec<(Vec<u8>, Vec<u8>, u32, u32)>;

fn content(d: &[crate::sut::DumpItem]) -> Content {
    let mut v: Content = d.iter().map(|i| (i.key.clone(), i.value.clone(), i.flags, i.ttl)).collect();
    v.sort();
    v
}

/// The store after the prelude and the first `upto` requests of the stream, each run to completion.
fn content_after(alpha: &[Elt], seq: &[usize]) -> Result<Content, String> {
    let w = net::NetWorld::new(NetCfg::default())?;
    let mut c = w.connect()?;
    let _ = c.step(&w, &Req::store(op::SET, b"k", b"5", 1, 0, 0).bytes());
    c.close(&w);
    let mut c = w.connect()?;
    let _ = c.step(&w, &Req::bare(op::NOOP).opaque(1).bytes());
    for (i, e) in seq.iter().enumerate() {
        let _ = c.step(&w, &alpha[*e].req(0x5000 + i as u32 * 0x11).bytes());
    }
    Ok(content(&w.dump()))
}

/// The client that pipelines `<a> quit|quitq <b>` (or `quit|quitq <b>`) on an established connection
/// and resets it at once, before the server has run: the server still finds every byte readable, but
/// every write and the shutdown of its socket fail.  Whatever fails, nothing received after quit or
/// quitq is executed: the store ends as after the prelude, or as after `<a>`.
fn run_reset(alpha: &[Elt], seq: &[usize], allowed: &[&Content]) -> Result<Outcome, String> {
    let w = net::NetWorld::new(NetCfg::default())?;
    let mut c = w.connect()?;
    let _ = c.step(&w, &Req::store(op::SET, b"k", b"5", 1, 0, 0).bytes());
    c.close(&w);
    let mut c = w.connect()?;
    let mut bytes = vec![];
    for (i, e) in seq.iter().enumerate() {
        bytes.extend(alpha[*e].req(0x5000 + i as u32 * 0x11).bytes());
    }
    // a fresh connection to a server that has seen one orderly connection: a noop is answered and
    // the connection takes the stream - anything else is state carried over between connections
    let established = c.step(&w, &Req::bare(op::NOOP).opaque(1).bytes()).is_ok() && wire::split_responses(&c.got).0.len() == 1;
    if !established || c.send(&w, &bytes).is_err() {
        return Ok(Outcome {
            viol: Some((
                "next-connection|disturbed".into(),
                format!(
                    "a fresh connection (after one connection that sent a set and closed) sent a noop and received {:?}{}",
                    wire::split_responses(&c.got).0.iter().map(|x| x.short()).collect::<Vec<_>>(),
                    if established { ", then lost the connection while sending its next requests" } else { "" }
                ),
            )),
            chunks: 1,
            responses: 0,
        });
    }
    c.abort(&w);
    w.settle();
    let have = content(&w.dump());
    let names: Vec<String> = seq.iter().map(|e| alpha[*e].name()).collect();
    let viol = if allowed.iter().any(|a| **a == have) {
        None
    } else {
        let closer = seq.iter().map(|e| &alpha[*e]).find(|e| matches!(e, Elt::Quit | Elt::QuitQ)).map(|e| e.opname()).unwrap_or_default();
        Some((
            format!("effects-after-reset|{}", closer),
            format!(
                "stream [{}] (one segment on an established connection, then the client's RST at once): the store ends as {:?}, which is neither the store before the stream nor the store after the requests in front of {} - something received after it was executed",
                names.join(" "),
                have.iter().map(|(k, v, f, _)| format!("{}={}/{:#x}", wire::show(k), wire::show(v), f)).collect::<Vec<_>>(),
                closer
            ),
        ))
    };
    Ok(Outcome { viol, chunks: 1, responses: 0 })
}

pub fn check(tier: Tier, threads: usize) -> CheckOutcome {
    let t0 = Instant::now();
    let alpha = alphabet();
    let n = alpha.len();
    let quit_i = n - 2;
    let quitq_i = n - 1;
    let mut streams: Vec<Vec<usize>> = vec![];
    for a in 0..n {
        streams.push(vec![a]);
        for b in 0..n {
            streams.push(vec![a, b]);
        }
    }
    for a in 0..n {
        for b in 0..n {
            for mid in [quit_i, quitq_i] {
                streams.push(vec![a, mid, b]);
            }
            if tier == Tier::Thorough {
                for c in 0..n {
                    streams.push(vec![a, b, c]);
                }
            }
        }
    }
    if tier == Tier::Quick {
        // triples around every quiet command and every unimplemented opcode
        for a in (0..n).filter(|i| matches!(&alpha[*i], Elt::Unimpl(..)) || matches!(&alpha[*i], Elt::C(c) if c.is_quiet())) {
            for b in [0usize, 7, 31] {
                for c in [0usize, 16, 31] {
                    streams.push(vec![b, a, c]);
                }
            }
        }
    }
    streams.sort();
    streams.dedup();
    crate::watchdog::working_on("C12 pipelined streams".into());
    let results = par_map(&streams, threads, |_, sq| -> Result<(Outcome, Outcome, Option<Outcome>), String> {
        let a = run_stream(&alpha, sq, false, None, false, 0)?;
        let mut b = run_stream(&alpha, sq, true, None, false, 0)?;
        // a stream with an oversized request is also delivered in three pieces cut inside that body
        if b.viol.is_none() {
            let mut off = 0usize;
            for (i, e) in sq.iter().enumerate() {
                let len = alpha[*e].req(i as u32).bytes().len();
                if matches!(alpha[*e], Elt::Oversized(..)) {
                    let o = run_stream(&alpha, sq, false, Some(&[off + 24 + 100, off + len - 300]), false, 0)?;
                    if o.viol.is_some() {
                        b = o;
                    } else {
                        // ... and the same three pieces from a slow sender, 2 s apart
                        let o = run_stream(&alpha, sq, false, Some(&[off + 24 + 100, off + len - 300]), false, 2)?;
                        if o.viol.is_some() {
                            b = o;
                        }
                    }
                    break;
                }
                off += len;
            }
        }
        // the client that pipelines and half-closes at once: everything sent is still executed and answered
        if b.viol.is_none() {
            let o = run_stream(&alpha, sq, false, None, true, 0)?;
            if o.viol.is_some() {
                b = o;
            }
        }
        // thorough: additionally every single cut of 2-frame streams
        let mut c = None;
        if tier == Tier::Thorough && sq.len() == 2 {
            let total: usize = sq.iter().enumerate().map(|(i, e)| alpha[*e].req(i as u32).bytes().len()).sum();
            for cut in 1..total {
                let o = run_stream(&alpha, sq, false, Some(&[cut]), false, 0)?;
                if o.viol.is_some() {
                    c = Some(o);
                    break;
                }
            }
        }
        Ok((a, b, c))
    });
    let mut found: BTreeMap<String, Violation> = BTreeMap::new();
    let mut mach = None;
    let (mut chunks, mut responses, mut runs) = (0u64, 0u64, 0u64);
    // the client that resets the connection right behind `... quit|quitq <b>`
    {
        let singles: Vec<Vec<usize>> = (0..n).map(|a| vec![a]).collect();
        let after_one = par_map(&singles, threads, |_, sq| content_after(&alpha, sq));
        let base = content_after(&alpha, &[]);
        let mut rs: Vec<Vec<usize>> = vec![];
        for mid in [quit_i, quitq_i] {
            for b in 0..n {
                rs.push(vec![mid, b]);
                for a in 0..n {
                    rs.push(vec![a, mid, b]);
                }
            }
        }
        match (&base, after_one.iter().find_map(|r| r.as_ref().err())) {
            (Ok(base), None) => {
                let res = par_map(&rs, threads, |_, sq| {
                    let mut allowed = vec![base];
                    if sq.len() == 3 {
                        allowed.push(after_one[sq[0]].as_ref().unwrap());
                    }
                    run_reset(&alpha, sq, &allowed)
                });
                for (sq, r) in rs.iter().zip(res.iter()) {
                    match r {
                        Err(e) => mach = Some(e.clone()),
                        Ok(o) => {
                            runs += 1;
                            chunks += o.chunks;
                            if let Some((sig, what)) = &o.viol {
                                found.entry(sig.clone()).or_insert(Violation {
                                    signature: sig.clone(),
                                    what: what.clone(),
                                    replay: json!({"engine": "c12-reset", "stream": sq.iter().map(|e| alpha[*e].name()).collect::<Vec<_>>(), "indices": sq}),
                                });
                            }
                        }
                    }
                }
            }
            (Err(e), _) => mach = Some(e.clone()),
            (_, Some(e)) => mach = Some(e.clone()),
        }
    }
    for (sq, r) in streams.iter().zip(results.iter()) {
        match r {
            Err(e) => mach = Some(e.clone()),
            Ok((a, b, c)) => {
                for o in [Some(a), Some(b), c.as_ref()].into_iter().flatten() {
                    runs += 1;
                    chunks += o.chunks;
                    responses += o.responses;
                    if let Some((sig, what)) = &o.viol {
                        found.entry(sig.clone()).or_insert(Violation {
                            signature: sig.clone(),
                            what: what.clone(),
                            replay: json!({"engine": "c12", "stream": sq.iter().map(|e| alpha[*e].name()).collect::<Vec<_>>(), "indices": sq}),
                        });
                    }
                }
            }
        }
    }
    // pipelines far longer than any per-read or per-wake-up budget, in one write
    {
        let sizes: Vec<usize> = if tier == Tier::Quick { vec![130, 300, 1100, 70_000] } else { vec![130, 257, 300, 1100, 5000, 70_000, 140_000] };
        let mut lp: Vec<(usize, bool)> = vec![];
        for n in &sizes {
            lp.push((*n, false));
            lp.push((*n, true));
        }
        let res = par_map(&lp, threads, |_, (n, quiet)| long_pipeline(*n, *quiet));
        for ((n, quiet), r) in lp.iter().zip(res.iter()) {
            runs += 1;
            match r {
                Err(e) => mach = Some(e.clone()),
                Ok(None) => {}
                Ok(Some(what)) => {
                    let sig = format!("long-pipeline|{}", if *quiet { "setq" } else { "noop" });
                    found.entry(sig.clone()).or_insert(Violation { signature: sig, what: what.clone(), replay: json!({"engine": "c12-long-pipeline", "requests": n, "quiet": quiet}) });
                }
            }
        }
    }
    {
        let (ln, lviol, lerr) = large_then_followers(tier);
        runs += ln;
        if let Some(e) = lerr {
            mach = Some(e);
        }
        for (sig, what) in lviol {
            found.entry(sig.clone()).or_insert(Violation { signature: sig, what, replay: json!({"engine": "c12-behind-large-store"}) });
        }
    }
    let (bp_n, bp_viol, bp_err) = backpressure(tier);
    if let Some(e) = bp_err {
        mach = Some(e);
    }
    for (sig, what) in bp_viol {
        found.entry(sig.clone()).or_insert(Violation { signature: sig, what, replay: json!({"engine": "c12-backpressure"}) });
    }
    runs += bp_n;
    let samples: Vec<serde_json::Value> = streams
        .iter()
        .step_by((streams.len() / 5).max(1))
        .take(5)
        .map(|sq| json!(sq.iter().map(|e| alpha[*e].name()).collect::<Vec<_>>()))
        .collect();
    CheckOutcome {
        property: "C12".into(),
        tier: if tier == Tier::Quick { "quick".into() } else { "thorough".into() },
        level: "model_checking",
        coverage: json!({
            "states": streams.len(),
            "transitions": chunks,
            "traces_validated_against_impl": runs,
            "evaluations": runs,
            "distinct_nontrivial": streams.len(),
            "responses_checked": responses,
            "alphabet": alpha.iter().map(|e| e.name()).collect::<Vec<_>>(),
            "samples": samples,
            "exhaustive": true,
            "rule": "every stream of 1..2 requests (thorough: 3) over the alphabet of all opcodes 0x00-0x24 (hit/miss, success/error operands, loud and quiet, unimplemented, undefined) plus every stream with quit/quitq in the middle, each sent in one segment, byte-at-a-time, and in one segment followed at once by the client's FIN (thorough: every single cut of 2-request streams) over real loopback TCP; responses matched to requests by opaque in order and validated by the sequential specification; final store compared with the specification state; plus every stream [<a>] quit|quitq <b> sent on an established connection that the client resets at once (the server reads every byte, its writes and its shutdown fail): the store must end as before the stream or as after <a>; plus pipelines of 130 .. 70000 (thorough 140000) loud noops, and as many quiet sets followed by a get, each ending in quit, in one write; plus a large store within the limit (5 KB .. 1 MB) with a quiet store, two gets and a noop pipelined behind it, in one write and cut 1 .. 40 bytes behind the large request",
        }),
        assumptions: vec!["tokio paused-clock quiescence; loopback delivery before the send syscall returns".into()],
        violations: found.into_values().collect(),
        wall_s: t0.elapsed().as_secs_f64(),
        machinery_error: mach,
    }
}

pub fn replay(v: &serde_json::Value) -> Result<Option<String>, String> {
    let alpha = alphabet();
    let sq: Vec<usize> = v["indices"].as_array().map(|a| a.iter().filter_map(|x| x.as_u64().map(|y| y as usize)).collect()).unwrap_or_default();
    let mut out = None;
    if v["engine"].as_str() == Some("c12-reset") {
        let base = content_after(&alpha, &[])?;
        let one = content_after(&alpha, &sq[..1])?;
        let allowed: Vec<&Content> = if sq.len() == 3 { vec![&base, &one] } else { vec![&base] };
        let a = run_reset(&alpha, &sq, &allowed)?.viol;
        let b = run_reset(&alpha, &sq, &allowed)?.viol;
        if a != b {
            return Err("two replays of the same stream differ".into());
        }
        return Ok(a.map(|(s, w)| format!("{}: {}", s, w)));
    }
    for (bytewise, fin) in [(false, false), (true, false), (false, true)] {
        let a = run_stream(&alpha, &sq, bytewise, None, fin, 0)?.viol;
        let b = run_stream(&alpha, &sq, bytewise, None, fin, 0)?.viol;
        if a != b {
            return Err("two replays of the same stream differ".into());
        }
        if out.is_none() {
            out = a.map(|(s, w)| format!("{}: {}", s, w));
        }
    }
    Ok(out)
}

/// Write-side back-pressure: the client pipelines many gets of a large item and does not read
/// until the server is blocked on a full socket; every response must still arrive whole, in
/// order, frame after frame (C11: body length = bytes that follow; C12: one response per request).
/// For C11 (a client can always match responses to its requests): connections that end with bytes
/// still unconsumed - requests pipelined behind quit / quitq / an undefined opcode - followed by
/// a fresh connection that sends one noop and must receive exactly that noop's answer.
/// A client that arrives while every connection slot is taken (limit 1 or 2, the holders idle):
/// silent or with a request already sent, it receives nothing it cannot match to a request of its
/// own - no frame before it has sent one, and for a request it has sent exactly one response with
/// that request's opcode and opaque (while it waits, or once a holder has left).
fn run_full_server(limit: u32, send_early: bool, kind: usize) -> Result<Option<(String, String)>, String> {
    let req = match kind {
        0 => Req::bare(op::NOOP).opaque(0x5151_0001),
        1 => Req::get(op::GET, b"missing").opaque(0x5151_0002),
        2 => Req::store(op::SET, b"w", b"1", 7, 0, 0).opaque(0x5151_0003),
        _ => Req::bare(op::VERSION).opaque(0x5151_0004),
    };
    let w = net::NetWorld::new(NetCfg { conn_limit: limit, ..Default::default() })?;
    let mut holders = vec![];
    for i in 0..limit {
        let mut h = w.connect()?;
        h.step(&w, &Req::bare(op::NOOP).opaque(0x100 + i).bytes())?;
        if wire::split_responses(&h.got).0.len() != 1 {
            return Err(format!("holder {} of {} was not served", i, limit));
        }
        holders.push(h);
    }
    let name = format!("limit={} client arriving at a full server, {} {}", limit, if send_early { "sending at once" } else { "silent until a slot is free, then sending" }, wire::op_name(req.opcode));
    let mut waiter = w.connect()?;
    if send_early {
        let _ = waiter.step(&w, &req.bytes());
    }
    w.settle();
    waiter.pump();
    let judge = |got: &[u8], sent: bool, when: &str| -> Option<(String, String)> {
        let (resps, residue) = wire::split_responses(got);
        if !sent && !got.is_empty() {
            return Some((
                "extra-response|full-server|before-any-request".into(),
                format!("{}: {} received {} bytes without having sent a request: {:?}", name, when, got.len(), resps.iter().map(|r| r.short()).collect::<Vec<_>>()),
            ));
        }
        if residue != 0 || resps.len() > 1 || resps.iter().any(|r| r.opcode != req.opcode || r.opaque != req.opaque) {
            return Some((
                "frame|full-server|not-the-request's-own".into(),
                format!("{}: {} the one request sent was answered {:?} (+{} stray bytes) - expected at most one response, with opcode {:#x} and opaque {:#x}", name, when, resps.iter().map(|r| r.short()).collect::<Vec<_>>(), residue, req.opcode, req.opaque),
            ));
        }
        None
    };
    if let Some(v) = judge(&waiter.got, send_early, "while waiting") {
        return Ok(Some(v));
    }
    holders[0].close(&w);
    w.settle();
    if !send_early {
        let _ = waiter.step(&w, &req.bytes());
    }
    w.settle();
    waiter.pump();
    if let Some(v) = judge(&waiter.got, true, "after a holder left") {
        return Ok(Some(v));
    }
    Ok(None)
}

pub fn correlation_across_connections(_tier: Tier, threads: usize) -> (u64, Vec<(String, String)>, Option<String>) {
    let alpha = alphabet();
    let n = alpha.len();
    let enders: Vec<usize> = (0..n).filter(|i| matches!(alpha[*i], Elt::Quit | Elt::QuitQ | Elt::Undefined(..))).collect();
    let mut streams: Vec<Vec<usize>> = vec![];
    for a in 0..n {
        for e in &enders {
            for b in [0usize, 7, 16, 31] {
                streams.push(vec![a, *e, b.min(n - 1)]);
            }
        }
    }
    // and on one connection: whatever a request of an opcode the server does not implement leaves
    // behind in the decoder, the requests after it are answered with their own opcode and opaque
    let unimpl: Vec<usize> = (0..n).filter(|i| matches!(alpha[*i], Elt::Unimpl(..) | Elt::Oversized(..))).collect();
    for u in &unimpl {
        for b in (0..n).step_by(3) {
            streams.push(vec![*u, b]);
            streams.push(vec![*u, b, 0]);
        }
    }
    let res = par_map(&streams, threads, |_, sq| run_stream(&alpha, sq, false, None, false, 0));
    let mut viol: Vec<(String, String)> = vec![];
    let mut err = None;
    for r in res {
        match r {
            Err(e) => err = Some(e),
            Ok(o) => {
                if let Some((sig, what)) = o.viol {
                    let mine = ["next-connection", "frame", "extra-response", "no-response"].iter().any(|p| sig.starts_with(p));
                    if mine && !viol.iter().any(|v| v.0 == sig) {
                        viol.push((sig, what));
                    }
                }
            }
        }
    }
    let mut full: Vec<(u32, bool, usize)> = vec![];
    for limit in [1u32, 2] {
        for early in [false, true] {
            for kind in 0..4usize {
                full.push((limit, early, kind));
            }
        }
    }
    let fres = par_map(&full, threads, |_, (l, e, k)| run_full_server(*l, *e, *k));
    for r in fres {
        match r {
            Err(e) => err = Some(e),
            Ok(Some((sig, what))) => {
                if !viol.iter().any(|v| v.0 == sig) {
                    viol.push((sig, what));
                }
            }
            Ok(None) => {}
        }
    }
    ((streams.len() + full.len()) as u64, viol, err)
}

pub fn backpressure(tier: Tier) -> (u64, Vec<(String, String)>, Option<String>) {
    let (mut n, mut out, err) = backpressure_gets(tier, &[op::GETK]);
    if err.is_some() {
        return (n, out, err);
    }
    let (n2, out2, err2) = late_reader();
    n += n2;
    out.extend(out2);
    (n, out, err2)
}

/// Large items read back through a socket that is full: pipelined gets of one big item, nothing read
/// until the server is blocked on the full socket; every response whole, in order, value exact.
pub fn backpressure_gets(tier: Tier, opcodes: &[u8]) -> (u64, Vec<(String, String)>, Option<String>) {
    let mut out = vec![];
    let mut n = 0u64;
    let sizes: &[usize] = if tier == Tier::Quick { &[200_000, 1_000_000] } else { &[70_000, 200_000, 524_288, 1_000_000] };
    let counts: &[usize] = if tier == Tier::Quick { &[12] } else { &[4, 12, 24] };
    for &opcode in opcodes {
    for &size in sizes {
        for &gets in counts {
          // `stall`: the reader stays away for longer than the server's idle timeout while the
          // server is blocked in the middle of a response, then reads everything
          for stall in [false, true] {
            n += 1;
            let r = (|| -> Result<Option<String>, String> {
                let w = net::NetWorld::new(NetCfg { item_limit: 1 << 20, ..Default::default() })?;
                let mut c = w.connect()?;
                let value: Vec<u8> = (0..size).map(|i| (i % 251) as u8).collect();
                if let Err(e) = c.step(&w, &Req::store(op::SET, b"big", &value, 0x0b16, 0, 0).opaque(1).bytes()) {
                    return Ok(Some(format!("the connection was lost while the item was being stored ({})", e)));
                }
                c.got.clear();
                let mut reqs = vec![];
                for i in 0..gets {
                    reqs.extend(Req::get(opcode, b"big").opaque(0x100 + i as u32).bytes());
                }
                reqs.extend(Req::bare(op::NOOP).opaque(0x999).bytes());
                if let Err(e) = c.send(&w, &reqs) {
                    return Ok(Some(format!("the connection was lost while the pipelined gets were being sent ({})", e)));
                }
                // the server runs until it is blocked on the full socket; nothing is read meanwhile
                w.settle();
                w.settle();
                if stall {
                    w.advance(w.cfg.timeout_secs as u64 + 1);
                }
                // now drain
                let mut idle = 0;
                let mut last = 0usize;
                for _ in 0..200_000 {
                    c.pump();
                    w.settle();
                    if c.got.len() == last {
                        idle += 1;
                        if idle > 20 {
                            break;
                        }
                    } else {
                        idle = 0;
                        last = c.got.len();
                    }
                }
                let (resps, residue) = wire::split_responses(&c.got);
                if residue != 0 {
                    return Ok(Some(format!("{} stray bytes after the last complete frame ({} frames parsed)", residue, resps.len())));
                }
                if resps.len() != gets + 1 {
                    return Ok(Some(format!("{} responses for {} requests", resps.len(), gets + 1)));
                }
                for (i, r) in resps.iter().enumerate().take(gets) {
                    if let Err(e) = wire::check_frame(opcode, 0x100 + i as u32, b"big", r) {
                        return Ok(Some(format!("response #{}: {}", i, e)));
                    }
                    if r.extras() != &0x0b16u32.to_be_bytes()[..] {
                        return Ok(Some(format!("response #{}: flags {}, stored 00000b16", i, wire::hex(r.extras()))));
                    }
                    if r.value() != &value[..] {
                        let at = r.value().iter().zip(value.iter()).position(|(a, b)| a != b).unwrap_or(r.value().len().min(value.len()));
                        return Ok(Some(format!("response #{}: value differs from the stored one at byte {} (length {} vs {})", i, at, r.value().len(), value.len())));
                    }
                }
                if resps[gets].opcode != op::NOOP || resps[gets].opaque != 0x999 {
                    return Ok(Some("the trailing noop was not answered last".into()));
                }
                Ok(None)
            })();
            match r {
                Ok(Some(what)) => out.push((
                    format!("backpressure{}|{}", if stall { "+stalled-reader" } else { "" }, wire::op_name(opcode)),
                    format!(
                        "{} pipelined {} of a {}-byte item, responses read only after the server blocked on the full socket{}: {}",
                        gets,
                        wire::op_name(opcode),
                        size,
                        if stall { " and the idle timeout has passed" } else { "" },
                        what
                    ),
                )),
                Ok(None) => {}
                Err(e) => return (n, out, Some(e)),
            }
          }
        }
    }
    }
    (n, out, None)
}

fn late_reader() -> (u64, Vec<(String, String)>, Option<String>) {
    let mut out = vec![];
    let mut n = 0u64;
    // a client that reads late while the server closes: pipelined gets, then quit (or the client's
    // FIN); the first read only after the server has run - every response must still arrive, whole,
    // followed by a clean end of stream
    for &(size, gets) in &[(65_536usize, 2usize), (65_536, 6), (262_144, 4)] {
        for ending in ["quit", "fin", "bad-magic"] {
            n += 1;
            let r = (|| -> Result<Option<String>, String> {
                let w = net::NetWorld::new(NetCfg { item_limit: 1 << 20, ..Default::default() })?;
                let mut c = w.connect()?;
                let value: Vec<u8> = (0..size).map(|i| (i % 241) as u8).collect();
                if let Err(e) = c.step(&w, &Req::store(op::SET, b"big", &value, 7, 0, 0).opaque(1).bytes()) {
                    return Ok(Some(format!("the connection was lost while the item was being stored ({})", e)));
                }
                c.got.clear();
                let mut reqs = vec![];
                for i in 0..gets {
                    reqs.extend(Req::get(op::GET, b"big").opaque(0x200 + i as u32).bytes());
                }
                let expect = if ending == "quit" {
                    reqs.extend(Req::bare(op::QUIT).opaque(0x2ff).bytes());
                    gets + 1
                } else if ending == "bad-magic" {
                    // a request with a broken header behind the valid ones: the connection ends
                    // there, what was answered before still arrives whole
                    let mut bad = Req::bare(op::NOOP).opaque(0x2fe).bytes();
                    bad[0] = 0x13;
                    reqs.extend(bad);
                    gets
                } else {
                    gets
                };
                if let Err(e) = c.send(&w, &reqs) {
                    return Ok(Some(format!("the connection was lost while the pipelined gets were being sent ({})", e)));
                }
                if ending == "fin" {
                    c.shutdown_write(&w);
                }
                w.settle();
                w.settle();
                let mut idle = 0;
                let mut last = 0usize;
                for _ in 0..200_000 {
                    c.pump();
                    w.settle();
                    if c.eof {
                        break;
                    }
                    if c.got.len() == last {
                        idle += 1;
                        if idle > 50 {
                            break;
                        }
                    } else {
                        idle = 0;
                        last = c.got.len();
                    }
                }
                let (resps, residue) = wire::split_responses(&c.got);
                if c.reset || residue != 0 || resps.len() != expect || !c.eof {
                    return Ok(Some(format!(
                        "{} of {} responses arrived whole ({} bytes received, {} stray), connection {}",
                        resps.len(),
                        expect,
                        c.got.len(),
                        residue,
                        if c.reset { "reset by the server" } else if c.eof { "closed" } else { "still open" }
                    )));
                }
                Ok(None)
            })();
            match r {
                Ok(Some(what)) => out.push((
                    format!("late-reader|{}", ending),
                    format!("{} pipelined get of a {}-byte item then {}, first read after the server ran: {}", gets, size, ending, what),
                )),
                Ok(None) => {}
                Err(e) => return (n, out, Some(e)),
            }
        }
    }
    (n, out, None)
}
