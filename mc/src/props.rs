//! Per-property alphabets and bounds for the E2 `seq` engine.

#![allow(dead_code)]

use crate::cmd::{CasArg, Cmd, StoreKind, Tick};
use crate::model::Evict;
use crate::seq::SeqCfg;
use crate::sut::{Policy, SutCfg};

pub const K1: &[u8] = b"k1";
pub const K2: &[u8] = b"k2";
pub const K3: &[u8] = b"k3";

#[derive(Clone, Copy, Debug, PartialEq, Eq)]
pub enum Tier {
    Quick,
    Thorough,
}

pub fn set(k: &[u8], v: &[u8], f: u32, ttl: u32) -> Cmd {
    Cmd::Store { kind: StoreKind::Set, key: k.to_vec(), value: v.to_vec(), flags: f, ttl, cas: CasArg::Zero, quiet: false }
}
pub fn store(kind: StoreKind, k: &[u8], v: &[u8], f: u32, ttl: u32, cas: CasArg) -> Cmd {
    Cmd::Store { kind, key: k.to_vec(), value: v.to_vec(), flags: f, ttl, cas, quiet: false }
}
pub fn add(k: &[u8], v: &[u8], f: u32, ttl: u32) -> Cmd {
    store(StoreKind::Add, k, v, f, ttl, CasArg::Zero)
}
pub fn replace(k: &[u8], v: &[u8], f: u32, ttl: u32) -> Cmd {
    store(StoreKind::Replace, k, v, f, ttl, CasArg::Zero)
}
pub fn get(k: &[u8]) -> Cmd {
    Cmd::Get { key: k.to_vec(), with_key: false, quiet: false }
}
pub fn getk(k: &[u8]) -> Cmd {
    Cmd::Get { key: k.to_vec(), with_key: true, quiet: false }
}
pub fn append(k: &[u8], v: &[u8], cas: CasArg) -> Cmd {
    Cmd::Concat { append: true, key: k.to_vec(), value: v.to_vec(), cas, quiet: false }
}
pub fn prepend(k: &[u8], v: &[u8], cas: CasArg) -> Cmd {
    Cmd::Concat { append: false, key: k.to_vec(), value: v.to_vec(), cas, quiet: false }
}
pub fn incr(k: &[u8], d: u64, init: u64, exp: u32, cas: CasArg) -> Cmd {
    Cmd::Delta { incr: true, key: k.to_vec(), delta: d, initial: init, exp, cas, quiet: false }
}
pub fn decr(k: &[u8], d: u64, init: u64, exp: u32, cas: CasArg) -> Cmd {
    Cmd::Delta { incr: false, key: k.to_vec(), delta: d, initial: init, exp, cas, quiet: false }
}
pub fn delete(k: &[u8], cas: CasArg) -> Cmd {
    Cmd::Delete { key: k.to_vec(), cas, quiet: false }
}
pub fn flush(d: Option<u32>) -> Cmd {
    Cmd::Flush { delay: d, quiet: false }
}
pub fn tick(d: u64) -> Cmd {
    Cmd::Tick(Tick::Plus(d))
}
pub fn quiet(c: Cmd) -> Cmd {
    c.toggled().expect("no quiet twin")
}

pub fn all_bytes() -> Vec<u8> {
    (0..=255u8).collect()
}

fn base(name: &str, prop: &'static str, alphabet: Vec<Cmd>, depth: usize, tier: Tier) -> SeqCfg {
    SeqCfg {
        name: name.to_string(),
        prop,
        alphabet,
        depth,
        sut: SutCfg { item_limit: 1024, policy: Policy::None },
        evict: Evict::Off,
        normalise: true,
        state_cap: if tier == Tier::Quick { 1_500_000 } else { 12_000_000 },
        wall_cap_s: if tier == Tier::Quick { 40.0 } else { 600.0 },
        check_usage: false,
        start_time: 0,
        opaques: vec![],
        opaque_mod: 0,
        vbuckets: vec![],
        alt_thread_from: 0,
        no_dedup: false,
        alt_conn_from: 0,
        victim_deviations: None,
        roots: vec![],
    }
}

const DAYS30: u32 = 2_592_000;

fn c01(tier: Tier) -> Vec<SeqCfg> {
    let limit_val = vec![b'L'; 1024 - 8 - 2];
    let mut a = vec![
        set(K1, b"", 7, 0),
        set(K1, b"a", 0xdeadbeef, 0),
        set(K1, &all_bytes(), 0xffffffff, 2),
        set(K1, &limit_val, 0, 0),
        set(K2, b"b", 0xdeadbeef, 0),
        set(K2, &all_bytes(), 0, 2),
        get(K1),
        get(K2),
        getk(K1),
        delete(K1, CasArg::Zero),
        delete(K2, CasArg::Zero),
        add(K1, b"n", 7, 0),
        replace(K1, b"r", 9, 0),
        store(StoreKind::Set, K1, b"", 3, 0, CasArg::CurrentPlus1),
        store(StoreKind::Set, K1, b"c", 4, 0, CasArg::Current),
        // client-supplied versions at the top of the range (on an absent key they are taken over + 1)
        store(StoreKind::Set, K1, b"m", 5, 0, CasArg::Arb(u64::MAX - 1)),
        store(StoreKind::Set, K2, b"m", 5, 0, CasArg::Arb(u64::MAX - 2)),
        append(K1, b"x", CasArg::Zero),
        prepend(K2, b"y", CasArg::Zero),
        incr(K2, 1, 5, 0, CasArg::Zero),
        flush(None),
        flush(Some(2)),
        tick(1),
        tick(2),
    ];
    let mut cfgs = vec![];
    let d = if tier == Tier::Quick { 6 } else { 9 };
    cfgs.push(base("C01/none", "C01", a.clone(), d, tier));
    let mut r = base("C01/random-unreached", "C01", a.clone(), if tier == Tier::Quick { 5 } else { 8 }, tier);
    r.sut.policy = Policy::Random(1 << 40);
    cfgs.push(r);
    {
        // unusual keys (1 byte, 250 bytes, binary) with the default 1 KiB test limit, quick tier too
        let k250 = vec![b'K'; 250];
        let kbin = vec![0u8, 0xff, b' ', b'\n'];
        let ak = vec![
            set(b"k", b"one", 1, 0),
            set(&k250, &all_bytes(), 2, 0),
            set(&kbin, b"bin", 3, 2),
            get(b"k"),
            getk(&k250),
            get(&kbin),
            getk(&kbin),
            delete(&k250, CasArg::Zero),
            append(&kbin, &[0u8], CasArg::Zero),
            incr(&k250, 1, 5, 0, CasArg::Zero),
            tick(2),
        ];
        let mut c = base("C01/keys", "C01", ak, if tier == Tier::Quick { 5 } else { 7 }, tier);
        c.start_time = 7;
        cfgs.push(c);
    }
    if tier == Tier::Thorough {
        // unusual keys, default 1 MiB item limit, stores at a non-zero time
        let k250 = vec![b'K'; 250];
        let kbin = vec![0u8, 0xff, b' ', b'\n'];
        let big = vec![0xa5u8; 1024 * 1024 - 8 - 1];
        a = vec![
            set(b"k", &big, 1, 0),
            set(&k250, b"v250", 2, 0),
            set(&kbin, &all_bytes(), 3, 3),
            set(b"k", b"", 4, 0),
            get(b"k"),
            get(&k250),
            getk(&k250),
            get(&kbin),
            getk(&kbin),
            delete(&k250, CasArg::Zero),
            append(&kbin, &[0u8], CasArg::Zero),
            flush(None),
            tick(1),
            tick(2),
        ];
        let mut c = base("C01/keys-1MiB", "C01", a, 5, tier);
        c.sut.item_limit = 1024 * 1024;
        c.start_time = 1000;
        cfgs.push(c);
    }
    cfgs
}

fn c02(tier: Tier) -> Vec<SeqCfg> {
    use CasArg::*;
    let mut a = vec![set(K1, b"s", 1, 0), get(K1)];
    for cas in [Current, Stale1, Stale2, CurrentPlus1, Max, Arb(0x1234)] {
        a.push(store(StoreKind::Set, K1, b"c", 2, 0, cas));
    }
    for cas in [Zero, Current, Stale1] {
        a.push(store(StoreKind::Replace, K1, b"r", 3, 0, cas));
        a.push(append(K1, b"+", cas));
        a.push(incr(K1, 1, 10, 0, cas));
        a.push(delete(K1, cas));
    }
    a.push(store(StoreKind::Add, K1, b"a", 4, 0, Zero));
    a.push(store(StoreKind::Add, K1, b"a", 4, 0, Arb(0x1234)));
    a.push(store(StoreKind::Add, K1, b"a", 4, 0, Current));
    a.push(prepend(K1, b"-", Current));
    a.push(decr(K1, 1, 10, 0, CurrentPlus1));
    // a decrement below zero (saturating branch) guarded by a stale CAS
    a.push(decr(K1, 100, 10, 0, Stale1));
    a.push(delete(K1, Max));
    // expiry and re-creation
    a.push(set(K1, b"7", 5, 1));
    a.push(tick(1));
    // a second key drives the global counter
    a.push(set(K2, b"o", 0, 0));
    a.push(store(StoreKind::Set, K2, b"p", 0, 0, Current));
    a.push(get(K2));
    // a pending delayed flush rewrites item metadata: tokens must survive it
    a.push(flush(Some(3)));
    // an immediate flush ends every lifetime; the generator goes on
    a.push(flush(None));
    // a delta of 0 is a mutation like any other: guarded, and it rotates the token
    a.push(incr(K1, 0, 10, 0, Stale1));
    a.push(incr(K1, 0, 10, 0, Current));
    // a client-supplied CAS just below the top on an absent key (the item gets 2^64-1)
    a.push(store(StoreKind::Set, K2, b"t", 0, 0, Arb(u64::MAX - 1)));
    // a guarded store that is also over the item size limit: refused (for size or for its CAS), and
    // the item it names is untouched either way
    a.push(store(StoreKind::Set, K1, &vec![b'x'; 1100], 2, 0, Stale1));
    a.push(store(StoreKind::Set, K1, &vec![b'x'; 1100], 2, 0, Current));
    a.push(quiet(store(StoreKind::Set, K1, &vec![b'x'; 1100], 2, 0, Arb(0x1234))));
    // the quiet forms report a failed guard like the loud ones (only success is silent)
    a.push(quiet(store(StoreKind::Set, K1, b"q", 2, 0, Stale1)));
    a.push(quiet(store(StoreKind::Replace, K1, b"q", 3, 0, Stale1)));
    a.push(quiet(store(StoreKind::Replace, K1, b"q", 3, 0, Current)));
    a.push(quiet(store(StoreKind::Add, K1, b"q", 4, 0, Zero)));
    a.push(quiet(append(K1, b"+", Stale1)));
    a.push(quiet(incr(K1, 1, 10, 0, Stale1)));
    a.push(quiet(delete(K1, Stale1)));
    let d = if tier == Tier::Quick { 7 } else { 10 };
    let mut v = vec![base("C02/cas", "C02", a, d, tier)];
    // CAS-carrying stores that also carry a TTL, on a server whose clock is far from 0
    let b = vec![
        set(K1, b"s", 1, 0),
        set(K1, b"t", 1, 3),
        store(StoreKind::Set, K1, b"c1", 2, 2, Current),
        store(StoreKind::Set, K1, b"c2", 2, 2, Stale1),
        store(StoreKind::Set, K1, b"c3", 2, 50, CurrentPlus1),
        store(StoreKind::Replace, K1, b"r1", 3, 2, Current),
        store(StoreKind::Replace, K1, b"r2", 3, 2, Stale1),
        append(K1, b"+", Stale1),
        incr(K1, 1, 10, 2, Stale1),
        delete(K1, Stale1),
        get(K1),
        flush(Some(2)),
        tick(1),
        tick(3),
    ];
    // a server that has been running for a while: the same questions asked after 7 .. 257 earlier
    // stores (every power of two and its neighbours, 10, 100), on the guarded key and on another one
    {
        let a = vec![
            set(K1, b"s", 1, 0),
            set(K2, b"o", 0, 0),
            get(K1),
            store(StoreKind::Set, K1, b"c", 2, 0, Current),
            store(StoreKind::Set, K1, b"d", 2, 0, Stale1),
            store(StoreKind::Set, K1, b"e", 2, 0, CurrentPlus1),
            append(K1, b"+", Stale1),
            incr(K2, 1, 10, 0, Stale1),
            delete(K1, Stale1),
        ];
        let mut c = base("C02/after-many-stores", "C02", a, if tier == Tier::Quick { 3 } else { 4 }, tier);
        // absolute tokens in the state fingerprint: the start states differ in nothing else
        c.normalise = false;
        for k in [7usize, 8, 9, 10, 15, 16, 17, 31, 32, 33, 63, 64, 65, 100, 127, 128, 129, 255, 256, 257] {
            c.roots.push(vec![1u16; k]);
            c.roots.push((0..k).map(|i| (i % 2) as u16).collect());
        }
        v.push(c);
    }
    let mut c = base("C02/cas-with-ttl-late-clock", "C02", b, if tier == Tier::Quick { 6 } else { 12 }, tier);
    c.start_time = 100;
    v.push(c);
    v
}

fn c05(tier: Tier) -> Vec<SeqCfg> {
    use CasArg::Zero;
    let a = vec![
        // value and flags collide pairwise: only the TTL tells these stores apart
        set(K1, b"1", 1, 0),
        set(K1, b"2", 2, 1),
        set(K1, b"1", 1, 2),
        set(K1, b"2", 2, 3),
        set(K1, b"5", 5, DAYS30),
        set(K1, b"", 7, 2),
        add(K1, b"6", 6, 2),
        replace(K1, b"7", 7, 2),
        get(K1),
        append(K1, b"0", Zero),
        prepend(K1, b"1", Zero),
        incr(K1, 1, 9, 0, Zero),
        incr(K1, 1, 9, 2, Zero),
        decr(K1, 1, 9, 0xffff_ffff, Zero),
        // the same guarded by the current CAS: the expiration of an incr/decr request is for creation only
        incr(K1, 1, 9, 0, CasArg::Current),
        decr(K1, 1, 9, 0xffff_ffff, CasArg::Current),
        delete(K1, Zero),
        set(K2, b"8", 8, 3),
        get(K2),
        flush(None),
        flush(Some(1)),
        flush(Some(5)),
        tick(1),
        tick(2),
        Cmd::Tick(Tick::ToNextExpiry),
        Cmd::Tick(Tick::BeforeNextExpiry),
        tick(DAYS30 as u64),
    ];
    let d = if tier == Tier::Quick { 6 } else { 8 };
    let mut c = base("C05/ttl", "C05", a.clone(), d, tier);
    c.start_time = 100;
    let mut v = vec![c];
    // a server that has been running for 2^32 - 2 seconds: the clock crosses 2^32 during the history
    let mut late = base("C05/clock-crossing-2^32", "C05", a.clone(), if tier == Tier::Quick { 5 } else { 6 }, tier);
    late.start_time = (1u64 << 32) - 2;
    v.push(late);
    if tier == Tier::Thorough {
        let mut z = base("C05/ttl-from-zero", "C05", a, 7, tier);
        z.start_time = 0;
        v.push(z);
    }
    v
}

fn c06(tier: Tier) -> Vec<SeqCfg> {
    use CasArg::Zero;
    // the filler makes old+suffix reach the 1024-byte item limit exactly (body = key + value)
    let filler = vec![b'F'; 1024 - 2 - 4];
    let a = vec![
        set(K1, b"base", 0xdeadbeef, 0),
        set(K1, b"", 0, 0),
        set(K1, b"", 0xdeadbeef, 0),
        set(K1, b"tmp", 5, 1),
        add(K1, b"A", 1, 0),
        add(K1, b"", 0xdeadbeef, 0),
        add(K1, &[0u8, 0xff], 2, 0),
        store(StoreKind::Add, K1, b"X", 9, 0, CasArg::Arb(0x7777)),
        store(StoreKind::Replace, K1, b"Y", 9, 0, CasArg::Arb(0x7777)),
        replace(K1, b"R", 3, 0),
        replace(K1, &[0u8, 0xff], 0xdeadbeef, 0),
        // same bytes as a value another command stores, different flags / ttl
        replace(K1, b"base", 7, 0),
        replace(K1, b"", 9, 2),
        add(K1, b"base", 8, 0),
        store(StoreKind::Add, K1, b"X", 8, 0, CasArg::Current),
        store(StoreKind::Replace, K1, b"Y", 8, 0, CasArg::CurrentPlus1),
        set(K1, b"R", 0xdeadbeef, 0),
        append(K1, b"", Zero),
        append(K1, &[0u8, 0xff], Zero),
        append(K1, b"tail", Zero),
        append(K1, &filler, Zero),
        prepend(K1, b"", Zero),
        prepend(K1, &[0u8, 0xff], Zero),
        prepend(K1, b"head", Zero),
        quiet(append(K1, b"qt", Zero)),
        quiet(prepend(K1, b"qh", Zero)),
        // over the item size limit: refused for size - and a refused command changes nothing
        add(K1, &vec![b'y'; 1100], 9, 0),
        replace(K1, &vec![b'z'; 1100], 9, 0),
        append(K1, &vec![b'+'; 1100], Zero),
        quiet(prepend(K1, &vec![b'-'; 1100], Zero)),
        get(K1),
        delete(K1, Zero),
        flush(None),
        tick(1),
        set(K2, b"other", 9, 0),
        append(K2, b"!", Zero),
        get(K2),
    ];
    let d = if tier == Tier::Quick { 6 } else { 8 };
    let mut v = vec![base("C06/conditional", "C06", a, d, tier)];
    // two clients, one command at a time (no race): the same small alphabet twice, the second copy
    // sent over a second connection of the server - what one connection has seen of a key (a miss,
    // a hit, a refusal) is no knowledge about the key once another connection has spoken; histories
    // are enumerated without state matching, the state in question is not in the store
    {
        let half = vec![
            get(K1),
            set(K1, b"s", 1, 0),
            add(K1, b"A", 2, 0),
            replace(K1, b"R", 3, 0),
            append(K1, b"+", Zero),
            delete(K1, Zero),
            set(K1, b"t", 4, 1),
        ];
        let mut both = half.clone();
        both.extend(half.iter().cloned());
        both.push(tick(1));
        let mut c = base("C06/two-connections", "C06", both, if tier == Tier::Quick { 4 } else { 5 }, tier);
        c.alt_conn_from = half.len();
        c.no_dedup = true;
        v.push(c);
    }
    v
}

fn c07(tier: Tier) -> Vec<SeqCfg> {
    use CasArg::*;
    let texts: Vec<&[u8]> = vec![
        b"0",
        b"1",
        b"007",
        // leading zeros: text length says nothing about magnitude (20, 21 and 40 characters)
        b"00000000000000000041",
        b"000000000000000000041",
        b"0000000000000000000000000000000000000009",
        b"18446744073709551614",
        b"18446744073709551615",
        b"18446744073709551616",
        b"+5",
        b" 5",
        b"5 ",
        b"-1",
        b"",
        b"abc",
        &[0xc3, 0x28],
    ];
    let mut a = vec![];
    for (i, t) in texts.iter().enumerate() {
        a.push(set(K1, t, if i % 2 == 0 { 0xdeadbeef } else { 0 }, 0));
    }
    for d in [0u64, 1, 1 << 63, u64::MAX] {
        a.push(incr(K1, d, 5, 0, Zero));
        a.push(decr(K1, d, 5, 0, Zero));
    }
    a.push(incr(K1, 1, 0, 5, Zero));
    a.push(incr(K1, 1, u64::MAX, 0, Zero));
    a.push(incr(K1, 1, 5, 0xffff_ffff, Zero));
    a.push(decr(K1, 1, 5, 0xffff_ffff, Zero));
    a.push(decr(K1, 2, 0, 5, Zero));
    a.push(incr(K1, 1, 5, 0, Current));
    a.push(incr(K1, 1, 5, 0, Stale1));
    a.push(decr(K1, 1, 5, 0, Current));
    // a CAS that names no item (the key is absent, or holds something else): on an absent key the
    // counter is created all the same
    a.push(incr(K1, 1, 5, 0, Arb(0x1234)));
    a.push(decr(K1, 1, 6, 3, Arb(0x1234)));
    a.push(get(K1));
    a.push(delete(K1, Zero));
    a.push(tick(5));
    // an item whose own TTL is the largest one, and a delayed flush with that delay: 0xffffffff is a
    // sentinel in the *request* of incr/decr, nowhere else
    a.push(set(K1, b"41", 3, 0xffff_ffff));
    a.push(flush(Some(0xffff_ffff)));
    // quiet variants: same rules, errors are still answered
    a.push(quiet(incr(K1, 1, 5, 0, Zero)));
    a.push(quiet(decr(K1, 1, 5, 0, Zero)));
    a.push(quiet(incr(K1, 1, 5, 0xffff_ffff, Zero)));
    a.push(quiet(decr(K1, 1, 5, 0xffff_ffff, Zero)));
    a.push(quiet(incr(K1, 1, 5, 0, Stale1)));
    let d = if tier == Tier::Quick { 8 } else { 14 };
    vec![base("C07/counters", "C07", a, d, tier)]
}

fn c08(tier: Tier) -> Vec<SeqCfg> {
    use CasArg::*;
    let mut a = vec![];
    for (i, k) in [K1, K2, K3].iter().enumerate() {
        a.push(set(k, format!("v{}", i).as_bytes(), i as u32, 0));
        a.push(get(k));
        a.push(delete(k, Zero));
    }
    a.push(set(K1, b"w", 7, 2));
    a.push(store(StoreKind::Set, K1, b"again", 8, 0, Current));
    a.push(store(StoreKind::Replace, K2, b"again", 9, 0, Zero));
    a.push(add(K1, b"n", 4, 0));
    a.push(delete(K1, Current));
    a.push(delete(K1, Stale1));
    a.push(delete(K2, CurrentPlus1));
    a.push(flush(None));
    a.push(flush(Some(0)));
    a.push(flush(Some(1)));
    a.push(flush(Some(3)));
    // the quiet forms: without extras, and with a delay
    a.push(quiet(flush(None)));
    a.push(quiet(flush(Some(1))));
    a.push(tick(1));
    a.push(tick(3));
    let d = if tier == Tier::Quick { 7 } else { 9 };
    let mut c = base("C08/delete-flush", "C08", a, d, tier);
    c.start_time = 50;
    let mut v = vec![c];
    // two clients, one command at a time: a flush is a flush whichever connection sends it and
    // whatever that connection sent before (second copy of the alphabet over a second connection,
    // histories without state matching)
    {
        let half = vec![set(K1, b"v", 1, 0), get(K1), flush(None), flush(Some(1)), quiet(flush(None)), delete(K1, Zero)];
        let mut both = half.clone();
        both.extend(half.iter().cloned());
        both.push(tick(1));
        let mut c = base("C08/two-connections", "C08", both, if tier == Tier::Quick { 4 } else { 5 }, tier);
        c.alt_conn_from = half.len();
        c.no_dedup = true;
        c.start_time = 50;
        v.push(c);
    }
    v
}

fn c14(tier: Tier) -> Vec<SeqCfg> {
    use CasArg::Zero;
    let v10 = vec![b'x'; 10];
    let v40 = vec![b'y'; 40];
    let a = vec![
        set(K1, b"", 0, 0),
        set(K1, &v10, 1, 0),
        set(K1, &v40, 2, 0),
        set(K2, &v10, 3, 0),
        set(K2, &v40, 4, 0),
        set(K3, &v10, 5, 1),
        set(K3, b"7", 6, 0),
        set(b"k4", &v10, 7, 0),
        set(b"k5", &v10, 8, 0),
        append(K1, &v10, Zero),
        incr(K3, 1, 5, 0, Zero),
        // stores that carry a CAS (matching, and any CAS on an absent key) go through eviction too
        store(StoreKind::Set, K1, &v40, 9, 0, CasArg::Current),
        store(StoreKind::Set, K2, &v10, 9, 0, CasArg::Arb(0x1234)),
        delete(K1, Zero),
        flush(None),
        flush(Some(1)),
        tick(1),
        get(K1),
        get(K2),
    ];
    let mut v = vec![];
    let limits: &[u64] = if tier == Tier::Quick { &[10, 34, 60, 100] } else { &[10, 34, 60, 100, 200] };
    for l in limits {
        // thorough: the two small limits (where nearly every store evicts) one level deeper
        let mut c = base(&format!("C14/L={}", l), "C14", a.clone(), if tier == Tier::Quick { 5 } else if *l <= 34 { 7 } else { 6 }, tier);
        c.sut.policy = Policy::Random(*l);
        c.evict = Evict::Tight;
        v.push(c);
    }
    // one store that has to evict a dozen records in a row, then further stores: a cache filled to
    // the limit with twelve 25-byte records (start history; a record counts 24 bytes + its value),
    // then a 224-byte record, 25-byte records under fresh keys, overwrites.  The eviction loop runs until the counter is back under the
    // limit however many rounds that takes; whatever a long eviction leaves behind, the next store
    // is again within L + its own record.  The full victim tree of such a step is factorial: the
    // first record in iteration order is the default victim, every step may depart from it at most
    // once
    {
        let mut a: Vec<Cmd> = vec![];
        for i in 0..12u8 {
            a.push(set(&[b'a', b'a' + i], b"s", i as u32, 0));
        }
        // the large record under four different keys: where it sits in the store's iteration order
        // (first, so that the default victim is the large record itself, or behind the small ones)
        // is part of the scenario
        for k in [b"kb", b"kc", b"kd", b"ke"] {
            a.push(set(k, &vec![b'B'; 200], 77, 0)); // 12..15
        }
        a.push(set(b"c0", b"n", 78, 0)); // 16
        a.push(set(b"c1", b"n", 79, 0)); // 17
        a.push(append(b"c0", b"+", Zero)); // 18
        a.push(delete(b"kb", Zero)); // 19
        // (both tiers: depth 2 behind the start histories, one departure per step - 0.26 M histories;
        // a third level stopped at the 12 M cap after 5 min without completing, two departures per
        // step would be ~10^9 histories)
        let dev = 1;
        let mut c = base(&format!("C14/nine-victims-in-a-row-L=300/victim-deviations<={}", dev), "C14", a, 2, tier);
        c.sut.policy = Policy::Random(300);
        c.evict = Evict::Tight;
        c.victim_deviations = Some(dev);
        c.roots.push((0..12u16).collect());
        for big in 12..16u16 {
            c.roots.push((0..12u16).chain(std::iter::once(big)).collect());
        }
        c.no_dedup = true;
        v.push(c);
    }
    v
}

fn c15(tier: Tier) -> Vec<SeqCfg> {
    use CasArg::*;
    let a = vec![
        set(K1, b"aaaaaaaaaa", 1, 0),
        set(K1, b"bb", 2, 0),
        set(K2, b"7", 3, 0),
        set(K3, b"tmp", 4, 1),
        store(StoreKind::Set, K1, b"cc", 5, 0, Current),
        store(StoreKind::Set, K1, b"dd", 5, 0, CurrentPlus1),
        add(K1, b"ee", 6, 0),
        add(K3, b"ff", 6, 0),
        replace(K1, b"gg", 7, 0),
        replace(K3, b"hh", 7, 0),
        append(K1, b"+", Zero),
        prepend(K1, b"-", Zero),
        append(K3, b"+", Zero),
        incr(K2, 1, 5, 0, Zero),
        decr(K2, 1, 5, 0, Zero),
        incr(K3, 1, 5, 0, Zero),
        incr(K3, 1, 5, 0xffff_ffff, Zero),
        delete(K1, Zero),
        delete(K1, CurrentPlus1),
        delete(K1, Current),
        delete(K3, Zero),
        get(K1),
        get(K2),
        get(K3),
        flush(None),
        flush(Some(1)),
        tick(1),
    ];
    let mut v = vec![];
    // accounting observed after every command (hook)
    let mut c = base("C15/accounting-L=4000", "C15", a.clone(), if tier == Tier::Quick { 4 } else { 6 }, tier);
    c.sut.policy = Policy::Random(4000);
    c.evict = Evict::Generous;
    c.check_usage = true;
    v.push(c);
    // behavioural form: limit just above the largest live set the alphabet can build at this depth
    let d = if tier == Tier::Quick { 4 } else { 6 };
    let mut c = base("C15/behavioural-L=130", "C15", a, d, tier);
    c.sut.policy = Policy::Random(130);
    c.evict = Evict::Generous;
    c.check_usage = true;
    v.push(c);
    // phantom bytes: a refused conditional store of a value as large as the limit pushes the counter
    // past the limit while little is stored; the next store evicts everything, meets an empty store
    // and restarts the counter -- after which the counter must again stand for what is stored
    {
        let big = [b'p'; 100];
        let a = vec![
            set(K1, b"aaaaaaaaaa", 1, 0),
            store(StoreKind::Set, K1, &big, 5, 0, CurrentPlus1),
            set(K2, b"7", 3, 0),
            add(K1, b"ee", 6, 0),
            delete(K1, Zero),
            get(K1),
            get(K2),
        ];
        let mut c = base("C15/phantom-bytes-L=100", "C15", a, if tier == Tier::Quick { 5 } else { 7 }, tier);
        c.sut.policy = Policy::Random(100);
        c.evict = Evict::Generous;
        c.check_usage = true;
        v.push(c);
    }
    // a store that must evict meets a map in which every record is expired and not yet collected:
    // the policy's idea of "how many records" and the records it can actually remove are the same
    // thing (start states: a TTL item overwritten three times under limit 60, then the clock moves)
    {
        let a = vec![
            set(K3, b"tmp", 4, 1),
            tick(2),
            set(K1, b"a", 1, 0),
            set(K2, b"7", 3, 0),
            delete(K3, Zero),
            get(K3),
            get(K1),
        ];
        let mut c = base("C15/all-expired-L=60", "C15", a, if tier == Tier::Quick { 3 } else { 5 }, tier);
        c.sut.policy = Policy::Random(60);
        c.evict = Evict::Generous;
        c.check_usage = true;
        c.roots.push(vec![0, 0, 0, 1]);
        c.roots.push(vec![0, 0, 0, 0, 1]);
        c.no_dedup = true;
        v.push(c);
    }
    // which worker thread serves a client is not the client's business: the same small alphabet
    // twice, the second copy executed by another OS thread (one command at a time, no race)
    {
        let half = vec![
            set(K1, b"aaaaaaaaaa", 1, 0),
            set(K2, b"7", 3, 0),
            delete(K1, Zero),
            delete(K2, Zero),
            incr(K2, 1, 5, 0, Zero),
            get(K1),
        ];
        let mut both = half.clone();
        both.extend(half.iter().cloned());
        let mut c = base("C15/two-worker-threads-L=4000", "C15", both, if tier == Tier::Quick { 4 } else { 5 }, tier);
        c.sut.policy = Policy::Random(4000);
        c.evict = Evict::Generous;
        c.check_usage = true;
        c.alt_thread_from = half.len();
        c.no_dedup = true;
        v.push(c);
    }
    v
}

/// Long repetitions: one client repeating a command hundreds of times on an absent, a present and an
/// expired-but-uncollected key (and set/expire/read cycles).  Every step has to return (watchdog);
/// every other property judges the same histories with its own clauses in the cross-alphabet pass.
fn c16(tier: Tier) -> Vec<SeqCfg> {
    use CasArg::Zero;
    let a = vec![
        set(K1, b"v", 1, 1),                   // 0
        tick(3),                               // 1
        get(K1),                               // 2
        delete(K1, Zero),                      // 3
        append(K1, b"+", Zero),                // 4
        incr(K1, 1, 5, 0xffff_ffff, Zero),     // 5
        set(K1, b"7", 2, 0),                   // 6
        replace(K1, b"8", 3, 0),               // 7
        flush(None),                           // 8
        set(K2, b"x", 3, 1),                   // 9
        get(K2),                               // 10
        add(K1, b"9", 4, 1),                   // 11
    ];
    let n = if tier == Tier::Quick { 300usize } else { 3000 };
    let mut c = base("C16/long-repetitions", "C16", a, 1, tier);
    c.normalise = false;
    for cmd in [2u16, 3, 4, 5, 7] {
        // absent, present, expired-and-uncollected
        c.roots.push(vec![cmd; n]);
        c.roots.push(std::iter::once(6).chain(std::iter::repeat(cmd).take(n)).collect());
        c.roots.push([0u16, 1].into_iter().chain(std::iter::repeat(cmd).take(n)).collect());
    }
    // two expired keys read alternately, never a store in between
    c.roots.push([0u16, 9, 1].into_iter().chain((0..n).map(|i| if i % 2 == 0 { 2 } else { 10 })).collect());
    // store / expire / read cycles, store / expire / store cycles, add on an expired key
    c.roots.push((0..n).flat_map(|_| [0u16, 1, 2]).collect());
    c.roots.push((0..n).flat_map(|_| [0u16, 1]).collect());
    c.roots.push((0..n).flat_map(|_| [11u16, 1]).collect());
    c.roots.push((0..n).flat_map(|_| [0u16, 8]).collect());
    c.roots.push((0..n).flat_map(|_| [6u16, 3]).collect());
    vec![c]
}

fn c11(tier: Tier) -> Vec<SeqCfg> {
    use CasArg::*;
    let k250 = vec![b'K'; 250];
    let kbin = vec![0u8, 0xff, 0x81];
    let big = vec![b'B'; 1100];
    let mut a = vec![
        set(K1, b"5", 0xdeadbeef, 0),
        set(K1, b"", 0, 0),
        set(&k250, &all_bytes(), 0xffffffff, 0),
        set(&kbin, b"bin", 1, 0),
        set(K1, &big, 0, 0),
        store(StoreKind::Set, K1, b"x", 0, 0, CurrentPlus1),
        add(K1, b"a", 0, 0),
        add(K2, &big, 0, 0),
        replace(K1, b"r", 0, 0),
        replace(K2, b"r", 0, 0),
        append(K1, b"+", Zero),
        append(K2, b"+", Zero),
        append(K1, &big, Zero),
        prepend(K1, b"-", Zero),
        incr(K1, 1, 7, 0, Zero),
        decr(K1, 1, 7, 0, Zero),
        incr(K2, 1, 7, 0xffff_ffff, Zero),
        incr(&kbin, 1, 7, 0, Zero),
        delete(K1, Zero),
        delete(K1, CurrentPlus1),
        delete(K2, Zero),
        get(K1),
        getk(K1),
        get(K2),
        getk(&k250),
        getk(&kbin),
        flush(None),
        flush(Some(3)),
        Cmd::Noop,
        Cmd::Version,
        Cmd::Stat,
    ];
    // quiet twins of everything that has one
    let twins: Vec<Cmd> = a.iter().filter_map(|c| c.toggled()).collect();
    a.extend(twins);
    let d = if tier == Tier::Quick { 5 } else { 7 };
    let mut c = base("C11/all-opcodes-all-outcomes", "C11", a, d, tier);
    c.opaques = vec![0, 0xabad1dea, 0xffffffff, 0x80000001];
    // by command index: two thirds of the commands of every kind carry a non-zero vbucket id
    c.vbuckets = vec![0, 0x0007, 0xffff];
    vec![c]
}

fn c19(tier: Tier) -> Vec<SeqCfg> {
    use CasArg::*;
    let a = vec![
        set(K1, b"5", 0xdeadbeef, 0),
        set(K1, b"txt", 1, 2),
        store(StoreKind::Set, K1, b"c", 2, 0, Current),
        store(StoreKind::Set, K1, b"s", 3, 0, Stale1),
        add(K1, b"a", 4, 0),
        add(K2, b"9", 5, 0),
        replace(K1, b"r", 6, 0),
        replace(K2, b"r", 7, 3),
        append(K1, b"1", Zero),
        prepend(K1, b"2", Zero),
        append(K2, b"3", Current),
        append(K1, b"4", Stale1),
        prepend(K1, b"5", Stale1),
        prepend(K2, b"6", CurrentPlus1),
        incr(K1, 1, 10, 0, Stale1),
        decr(K1, 1, 10, 0, Current),
        store(StoreKind::Replace, K1, b"rs", 8, 0, Stale1),
        store(StoreKind::Add, K1, b"as", 8, 0, Current),
        delete(K1, Current),
        incr(K1, 2, 10, 0, Zero),
        decr(K1, 1, 10, 0, Zero),
        incr(K2, 1, 10, 0xffff_ffff, Zero),
        // a delta of 0 still creates, re-stamps, rotates the token and reports errors
        incr(K1, 0, 10, 3, Zero),
        decr(K2, 0, 7, 0, Zero),
        incr(K1, 0, 10, 0, Stale1),
        delete(K1, Zero),
        delete(K2, Stale1),
        get(K1),
        getk(K2),
        // an oversized store (item limit 1024): refused and skipped, loud or quiet
        set(K2, &vec![b'x'; 1100], 9, 0),
        // ... and so is every other command that carries a value, on a key that exists
        add(K2, &vec![b'y'; 1100], 9, 0),
        replace(K1, &vec![b'z'; 1100], 9, 0),
        append(K1, &vec![b'+'; 1100], Zero),
        prepend(K1, &vec![b'-'; 1100], Zero),
        flush(None),
        flush(Some(2)),
        tick(1),
        tick(2),
    ];
    let d = if tier == Tier::Quick { 6 } else { 8 };
    vec![base("C19/loud-vs-toggled", "C19", a, d, tier)]
}

pub fn seq_cfgs(prop: &str, tier: Tier) -> Vec<SeqCfg> {
    let mut v = seq_cfgs_inner(prop, tier);
    if let Some(d) = std::env::var("MC_DEPTH").ok().and_then(|s| s.parse::<usize>().ok()) {
        for c in v.iter_mut() {
            c.depth = d;
        }
    }
    v
}

pub const SEQ_PROPS: [&str; 10] = ["C01", "C02", "C05", "C06", "C07", "C08", "C11", "C14", "C15", "C16"];

/// Cross-alphabet pass: the quick-tier configurations of the *other* sequential properties, judged
/// by `prop`'s clauses - a discrepancy any alphabet reaches is reported by the property owning it.
pub fn foreign_cfgs(prop: &'static str) -> Vec<SeqCfg> {
    let mut v = vec![];
    for other in SEQ_PROPS {
        if other == prop {
            continue;
        }
        for mut c in seq_cfgs(other, Tier::Quick) {
            // one level below the owner's own quick depth (the owner goes deeper with its own clauses)
            if !matches!(other, "C14" | "C15" | "C16") && !c.name.starts_with("C01/random") {
                c.depth -= 1;
            }
            c.name = format!("{}@{}", c.name, prop);
            c.prop = prop;
            v.push(c);
        }
    }
    v
}

fn seq_cfgs_inner(prop: &str, tier: Tier) -> Vec<SeqCfg> {
    match prop {
        "C01" => c01(tier),
        "C02" => c02(tier),
        "C05" => c05(tier),
        "C06" => c06(tier),
        "C07" => c07(tier),
        "C08" => c08(tier),
        "C11" => c11(tier),
        "C19" => c19(tier),
        "C14" => c14(tier),
        "C15" => c15(tier),
        "C16" => c16(tier),
        _ => vec![],
    }
}
