mod check_c09;
mod check_c10;
mod check_c12;
mod check_c13;
mod check_c17;
mod check_c18;
mod check_c20;
mod check_sched;
mod corpus;
mod cmd;
mod explore;
mod linspec;
mod model;
mod model_step;
mod net;
mod pair;
mod props;
mod props_sched;
mod report;
mod sched;
mod seq;
mod sut;
mod watchdog;
mod wire;

use props::Tier;
use report::{CheckOutcome, Violation};
use serde_json::{json, Value};
use std::time::Instant;

fn nthreads() -> usize {
    std::thread::available_parallelism().map(|n| n.get()).unwrap_or(4)
}

/// Runs every seq configuration of a property and merges the reports.
/// Cross-alphabet pass: the quick-tier configurations of the sequential properties other than
/// `prop`, judged by `prop`'s clauses.  Returns (evidence rows, states, transitions, executions).
fn cross_pass(prop: &'static str, violations: &mut Vec<Violation>, mach: &mut Option<String>) -> (Vec<Value>, u64, u64, u64) {
    let mut cross: Vec<Value> = vec![];
    let (mut states, mut transitions, mut executions) = (0u64, 0u64, 0u64);
    for cfg in props::foreign_cfgs(prop) {
        let rep = seq::explore_seq(&cfg, nthreads(), 0);
        if let Some(e) = &rep.machinery_error {
            *mach = Some(format!("{}: {}", cfg.name, e));
        }
        states += rep.states;
        transitions += rep.transitions;
        executions += rep.executions;
        cross.push(json!({
            "config": cfg.name,
            "alphabet_size": cfg.alphabet.len(),
            "depth_completed": rep.depth_reached,
            "capped": rep.capped,
            "states": rep.states,
            "transitions": rep.transitions,
            "owned_clause_hits": rep.owned_clause_hits,
            "foreign_discrepancies": rep.foreign,
        }));
        for f in rep.found {
            if violations.iter().any(|v| v.signature == f.signature) {
                continue;
            }
            violations.push(Violation {
                signature: f.signature.clone(),
                what: format!("{}: {}  after [{}] (alphabet of {})", f.clause, f.detail, f.hist_text.join(" ; "), cfg.name),
                replay: json!({
                    "engine": "seq",
                    "tier": "quick",
                    "config": f.cfg_name,
                    "history": f.hist.iter().map(|e| json!({"cmd": e.cmd, "choices": e.choices})).collect::<Vec<_>>(),
                    "history_text": f.hist_text,
                    "clause": f.clause,
                    "detail": f.detail,
                }),
            });
        }
    }
    (cross, states, transitions, executions)
}

/// A property without sequential configurations of its own (C10) judged on every sequential alphabet.
fn check_cross_only(prop: &'static str, tier: Tier) -> CheckOutcome {
    let t0 = Instant::now();
    let mut violations = vec![];
    let mut mach = None;
    let (cross, states, transitions, executions) = cross_pass(prop, &mut violations, &mut mach);
    CheckOutcome {
        property: prop.to_string(),
        tier: if tier == Tier::Quick { "quick".into() } else { "thorough".into() },
        level: "model_checking",
        coverage: json!({
            "states": states,
            "transitions": transitions,
            "traces_validated_against_impl": executions,
            "evaluations": executions,
            "distinct_nontrivial": states,
            "exhaustive": true,
            "cross_alphabet_pass": cross,
            "rule": "breadth-first over the command histories of every sequential alphabet (C01 C02 C05 C06 C07 C08 C11 C14 C15 and C16's long repetitions, quick depths) on the real decode->handle->encode path; this property's clauses only (no panic, no decode error on a valid request, every command returns - the 30 s watchdog)",
        }),
        assumptions: vec!["bounded depth and alphabets as listed".into()],
        violations,
        wall_s: t0.elapsed().as_secs_f64(),
        machinery_error: mach,
    }
}

/// Opaque independence: the opaque is a correlation id that is echoed and nothing else.  Every
/// history of the property's first alphabet is run on two stores with different opaque
/// assignments; responses (modulo the echoed opaque) and stores must be equal after every command.
fn opaque_differential(prop: &'static str, tier: Tier) -> CheckOutcome {
    let t0 = Instant::now();
    let mut a = props::seq_cfgs(prop, tier).remove(0);
    if tier == Tier::Quick {
        a.depth = a.depth.saturating_sub(1).max(3);
    } else {
        a.depth = a.depth.saturating_sub(2).max(4);
    }
    let mut b = a.clone();
    a.opaques = vec![0];
    b.opaques = vec![0xabad_cafe, 0xffff_ffff, 0x0000_0001, 0x8000_0000, 0x0000_ff00];
    b.name = format!("{}/other-opaques", a.name);
    let rep = pair::explore_diff(&a, &b, nthreads());
    let violations = rep
        .found
        .iter()
        .map(|f| Violation {
            signature: f.signature.replace("config-differs", "opaque-dependent"),
            what: format!("the same history with other opaque values: {}  after [{}]", f.detail, f.hist_text.join(" ; ")),
            replay: json!({"engine": "opaque-differential", "property": prop, "history_text": f.hist_text}),
        })
        .collect();
    CheckOutcome {
        property: prop.to_string(),
        tier: if tier == Tier::Quick { "quick".into() } else { "thorough".into() },
        level: "model_checking",
        coverage: json!({
            "evaluations": rep.executions,
            "distinct_nontrivial": rep.states,
            "states": rep.states,
            "transitions": rep.transitions,
            "traces_validated_against_impl": rep.executions,
            "depth_completed": rep.depth_reached,
            "capped": rep.capped,
            "exhaustive": rep.capped.is_none(),
            "rule": "BFS over all command histories of the property's first alphabet, applied in-process to two stores: every request with opaque 0 on one, with opaques from {0xabadcafe, 0xffffffff, 1, 0x80000000, 0xff00} on the other; after every command the responses (without the echoed opaque) and the stores (keys, values, flags, expiry, CAS) must be equal",
        }),
        assumptions: vec![],
        violations,
        wall_s: t0.elapsed().as_secs_f64(),
        machinery_error: rep.machinery_error,
    }
}

fn check_seq(prop: &'static str, tier: Tier) -> CheckOutcome {
    let t0 = Instant::now();
    let cfgs = props::seq_cfgs(prop, tier);
    let mut violations: Vec<Violation> = vec![];
    let mut cov_cfgs: Vec<Value> = vec![];
    let (mut states, mut transitions, mut executions) = (0u64, 0u64, 0u64);
    let mut samples: Vec<Value> = vec![];
    let mut exhaustive = true;
    let mut mach: Option<String> = None;
    let mut distinct_outcomes = 0u64;
    let mut socket_validated = 0u64;
    let mut crosscheck: Vec<Value> = vec![];
    for cfg in &cfgs {
        let mut extra_found: Vec<seq::Found> = vec![];
        let tree_depth = if tier == Tier::Quick { 2 } else { 3 };
        let rep = if prop == "C19" { pair::explore_pair(cfg, nthreads()) } else { seq::explore_seq(cfg, nthreads(), tree_depth) };
        // binding: spanning-tree histories replayed byte-for-byte through a real TCP server
        let (bound_n, bound_bad, bound_err) = if prop == "C19" {
            // every toggled history up to a small depth, pipelined through a real server
            pair::bind_pipelined(cfg, tree_depth, nthreads())
        } else {
            seq::bind_to_socket(cfg, &rep.tree, nthreads())
        };
        // thorough: the canonicalisation argument is checked, not assumed - the same configuration
        // is explored with exact (un-normalised) fingerprints and with normalised ones at a common
        // depth; the sets of violated signatures (owned and foreign) must be equal
        if tier == Tier::Thorough && prop != "C19" {
            let common = cfg.depth.saturating_sub(3).clamp(3, 6);
            let mut a = cfg.clone();
            a.depth = common;
            let mut b = a.clone();
            b.normalise = false;
            let ra = seq::explore_seq(&a, nthreads(), 0);
            let rb = seq::explore_seq(&b, nthreads(), 0);
            let sigs = |r: &seq::SeqReport| -> std::collections::BTreeSet<String> {
                r.found.iter().map(|f| f.signature.clone()).chain(r.foreign_examples.keys().cloned()).collect()
            };
            let (sa, sb) = (sigs(&ra), sigs(&rb));
            crosscheck.push(json!({
                "config": cfg.name, "depth": common,
                "states_normalised": ra.states, "states_exact": rb.states,
                "signatures_normalised": sa.len(), "signatures_exact": sb.len(), "equal": sa == sb,
                "capped": ra.capped.is_some() || rb.capped.is_some(),
            }));
            if sa != sb && ra.capped.is_none() && rb.capped.is_none() {
                mach = Some(format!(
                    "{}: exact and normalised fingerprints disagree at depth {}: only-normalised {:?} only-exact {:?}",
                    cfg.name, common, sa.difference(&sb).collect::<Vec<_>>(), sb.difference(&sa).collect::<Vec<_>>()
                ));
            }
        }
        // history-exhaustive pass: state matching merges histories whose stores look alike - and with
        // them any state a change keeps *outside* the store (a claim set, a cache, a per-connection
        // or per-thread remnant of a refused command).  Every history up to a smaller depth is
        // therefore also executed without state matching.
        let mut hist_pass = Value::Null;
        if prop != "C19" && !cfg.no_dedup {
            let budget: f64 = if tier == Tier::Quick { 1.5e6 } else { 4.0e7 };
            let budget = if cfg.evict != model::Evict::Off { budget / 8.0 } else { budget };
            let n = cfg.alphabet.len().max(2) as f64;
            let dh = ((budget.ln() / n.ln()).floor() as usize).max(2).min(cfg.depth.max(1));
            let mut hc = cfg.clone();
            hc.no_dedup = true;
            hc.depth = dh;
            hc.roots = vec![];
            let hr = seq::explore_seq(&hc, nthreads(), 0);
            if let Some(e) = &hr.machinery_error {
                mach = Some(format!("{} (history-exhaustive pass): {}", cfg.name, e));
            }
            if hr.capped.is_some() {
                exhaustive = false;
            }
            transitions += hr.transitions;
            executions += hr.executions;
            hist_pass = json!({
                "depth": dh, "depth_completed": hr.depth_reached, "histories": hr.states, "transitions": hr.transitions,
                "capped": hr.capped, "wall_s": hr.wall_s, "histories_per_depth": hr.level_states,
            });
            extra_found.extend(hr.found);
        }
        socket_validated += bound_n;
        if let Some(e) = bound_err {
            mach = Some(format!("{} (socket binding): {}", cfg.name, e));
        }
        for (sig, what) in bound_bad {
            violations.push(Violation {
                signature: sig,
                what,
                replay: json!({"engine": "seq-socket-binding", "config": cfg.name}),
            });
        }
        if let Some(e) = &rep.machinery_error {
            mach = Some(format!("{}: {}", cfg.name, e));
        }
        if std::env::var("MC_SHOW_FOREIGN").is_ok() {
            for (k, v) in &rep.foreign_examples {
                eprintln!("FOREIGN [{}] {}: {}", cfg.name, k, v);
            }
        }
        states += rep.states;
        transitions += rep.transitions;
        executions += rep.executions;
        distinct_outcomes += rep.distinct_outcomes;
        if rep.capped.is_some() {
            exhaustive = false;
        }
        for s in rep.samples.iter().take(2) {
            samples.push(json!({"config": cfg.name, "history": s}));
        }
        cov_cfgs.push(json!({
            "config": cfg.name,
            "alphabet_size": cfg.alphabet.len(),
            "depth_bound": cfg.depth,
            "depth_completed": rep.depth_reached,
            "frontier_emptied_before_bound": rep.frontier_emptied,
            "capped": rep.capped,
            "states": rep.states,
            "transitions": rep.transitions,
            "executions_of_real_code": rep.executions,
            "commands_not_applicable_in_state": rep.not_applicable,
            "states_per_depth": rep.level_states,
            "victim_choice_points": rep.victim_choice_points,
            "distinct_outcomes": rep.distinct_outcomes,
            "owned_clause_hits": rep.owned_clause_hits,
            "foreign_discrepancies": rep.foreign,
            "normalised_fingerprints": cfg.normalise,
            "start_states_besides_the_empty_store": cfg.roots.len(),
            "history_exhaustive_pass_without_state_matching": hist_pass,
            "wall_s": rep.wall_s,
        }));
        for f in rep.found.into_iter().chain(extra_found) {
            if violations.iter().any(|v| v.signature == f.signature) {
                continue;
            }
            violations.push(Violation {
                signature: f.signature.clone(),
                what: format!("{}: {}  after [{}]", f.clause, f.detail, f.hist_text.join(" ; ")),
                replay: json!({
                    "engine": "seq",
                    "tier": if tier == Tier::Quick { "quick" } else { "thorough" },
                    "config": f.cfg_name,
                    "history": f.hist.iter().map(|e| json!({"cmd": e.cmd, "choices": e.choices})).collect::<Vec<_>>(),
                    "history_text": f.hist_text,
                    "clause": f.clause,
                    "detail": f.detail,
                }),
            });
        }
    }
    // cross-alphabet pass: the alphabets of the other sequential properties, this property's clauses
    let mut cross: Vec<Value> = vec![];
    if prop != "C19" && prop != "C16" {
        let (c, st, tr, ex) = cross_pass(prop, &mut violations, &mut mach);
        cross = c;
        states += st;
        transitions += tr;
        executions += ex;
    }
    let coverage = json!({
        "states": states,
        "transitions": transitions,
        "traces_validated_against_impl": executions,
        "cross_alphabet_pass": cross,
        "histories_replayed_through_real_tcp_server": socket_validated,
        "exact_vs_normalised_fingerprint_crosscheck": crosscheck,
        "samples": samples,
        "exhaustive": exhaustive,
        "distinct_outcomes": distinct_outcomes,
        "rule": "breadth-first over command histories; every transition executes the real decode->handle->encode path with the reference model in lock-step; a state is (implementation dump, model bookkeeping) canonicalised (ages, CAS offsets); per configuration a second pass executes every history up to a smaller depth without state matching (state kept outside the store cannot hide behind equal dumps), and configurations with start states walk a long history first and explore from its end",
        "configs": cov_cfgs,
    });
    CheckOutcome {
        property: prop.to_string(),
        tier: if tier == Tier::Quick { "quick".into() } else { "thorough".into() },
        level: "model_checking",
        coverage,
        assumptions: vec![
            "bounded depth and alphabet as listed per config; values/keys/TTLs outside the alphabet are not covered".into(),
            "state canonicalisation assumes the store reads timestamps only relative to now and CAS only by equality/+1 (cross-checked against exact fingerprints in the thorough tier)".into(),
            "single connection, in-process; the socket layer is bound separately (E4)".into(),
        ],
        violations,
        wall_s: t0.elapsed().as_secs_f64(),
        machinery_error: mach,
    }
}

fn replay(path: &str) -> i32 {
    let s = match std::fs::read_to_string(path) {
        Ok(s) => s,
        Err(e) => {
            eprintln!("cannot read {}: {}", path, e);
            return 2;
        }
    };
    let v: Value = match serde_json::from_str(&s) {
        Ok(v) => v,
        Err(e) => {
            eprintln!("bad replay file: {}", e);
            return 2;
        }
    };
    match v["engine"].as_str() {
        Some("seq") => {
            let prop = v["property"].as_str().unwrap_or("");
            let tier = if v["tier"].as_str() == Some("thorough") { Tier::Thorough } else { Tier::Quick };
            let mut cfgs = props::seq_cfgs(prop, tier);
            if v["config"].as_str().map(|c| c.contains('@')).unwrap_or(false) {
                if let Some(p) = props::SEQ_PROPS.iter().chain(["C10"].iter()).find(|p| **p == prop) {
                    cfgs = props::foreign_cfgs(p);
                }
            }
            let cfg = match cfgs.iter().find(|c| Some(c.name.as_str()) == v["config"].as_str()) {
                Some(c) => c,
                None => {
                    eprintln!("unknown config");
                    return 2;
                }
            };
            let hist: seq::Hist = v["history"]
                .as_array()
                .unwrap()
                .iter()
                .map(|e| seq::Elem {
                    cmd: e["cmd"].as_u64().unwrap() as u16,
                    choices: e["choices"].as_array().unwrap().iter().map(|c| c.as_u64().unwrap() as u8).collect(),
                })
                .collect();
            let a = seq::replay_history(cfg, &hist);
            let b = seq::replay_history(cfg, &hist);
            match (a, b) {
                (Ok(a), Ok(b)) => {
                    for l in &a {
                        println!("{}", l);
                    }
                    if a != b {
                        eprintln!("MACHINERY-ERROR: two replays of the same history differ");
                        return 2;
                    }
                    println!("replayed twice with identical observations");
                    if a.iter().any(|l| l.contains("!!")) {
                        1
                    } else {
                        0
                    }
                }
                (Err(e), _) | (_, Err(e)) => {
                    eprintln!("MACHINERY-ERROR: {}", e);
                    2
                }
            }
        }
        Some("sched") => {
            let prop = v["property"].as_str().unwrap_or("");
            let tier = if v["tier"].as_str() == Some("thorough") { Tier::Thorough } else { Tier::Quick };
            let fams = match prop {
                "C03" => props_sched::c03_families(tier),
                "C04" => props_sched::c04_families(tier),
                "C16" => props_sched::c16_families(tier),
                "C14" => props_sched::c14_families(tier),
                "C15" => props_sched::c15_families(tier),
                "C01" => props_sched::c01_families(tier),
                "C05" => props_sched::c05_families(tier),
                "C08" => props_sched::c08_families(tier),
                "C06" => props_sched::c06_families(tier),
                _ => vec![],
            };
            let fam = match fams.iter().find(|f| Some(f.name.as_str()) == v["family"].as_str()) {
                Some(f) => f,
                None => {
                    eprintln!("unknown family");
                    return 2;
                }
            };
            let idx = v["program_index"].as_u64().unwrap_or(0) as usize;
            let prog = &fam.programs[idx];
            let choices: Vec<usize> = v["choices"].as_array().map(|a| a.iter().map(|c| c.as_u64().unwrap() as usize).collect()).unwrap_or_default();
            println!("program: {}", prog.describe());
            println!("schedule (choice list): {:?}", choices);
            sut::set_quiet(true);
            sched::warm_up();
            match sched::replay_schedule(prog, fam.opts, &choices) {
                Ok(Some((clause, detail))) => {
                    println!("{}: {}", clause, detail);
                    println!("replayed twice with identical observations");
                    1
                }
                Ok(None) => {
                    println!("no violation on this schedule; replayed twice with identical observations");
                    0
                }
                Err(e) => {
                    eprintln!("MACHINERY-ERROR: {}", e);
                    2
                }
            }
        }
        Some(e @ ("c09" | "c12" | "c12-reset" | "c13" | "c17" | "c17-queued" | "c17-offset" | "c18")) => {
            sut::set_quiet(true);
            let r = match e {
                "c09" => check_c09::replay(&v),
                "c12" | "c12-reset" => check_c12::replay(&v),
                "c13" => check_c13::replay(&v),
                "c17" | "c17-queued" | "c17-offset" => check_c17::replay(&v),
                _ => check_c18::replay(&v),
            };
            match r {
                Ok(Some(what)) => {
                    println!("{}", what);
                    println!("replayed twice with identical observations");
                    1
                }
                Ok(None) => {
                    println!("no violation in this scenario; replayed twice with identical observations");
                    0
                }
                Err(e) => {
                    eprintln!("MACHINERY-ERROR: {}", e);
                    2
                }
            }
        }
        Some(other) => {
            println!("engine {}: this artefact names the failing case; re-run `./run check {}` to reproduce it (deterministic enumeration)", other, v["property"].as_str().unwrap_or("<id>"));
            println!("{}", serde_json::to_string_pretty(&v).unwrap());
            0
        }
        None => {
            eprintln!("unknown engine in replay file");
            2
        }
    }
}

/// Runs the check (or replay) in a child process.  A server that takes the whole process down -- a
/// panic inside a guard that aborts on unwinding, a panic while panicking -- cannot be caught in
/// process; the parent sees the death by signal, reads the child's last breadcrumb and, if the last
/// panic was raised in the server's own code, reports it as what it is: client input crashed the
/// server (C10).  Any other death of the child is a machinery error, never a verdict.
fn supervise(args: &[String]) -> i32 {
    use std::os::unix::process::{CommandExt, ExitStatusExt};
    let exe = match std::env::current_exe() {
        Ok(e) => e,
        Err(e) => {
            eprintln!("MACHINERY-ERROR cannot find own executable: {}", e);
            return 2;
        }
    };
    let dir = report::verif_dir().join("mc").join("target");
    let _ = std::fs::create_dir_all(&dir);
    let crumb = dir.join(format!("crumb.{}", std::process::id()));
    let _ = std::fs::remove_file(&crumb);
    let mut cmd = std::process::Command::new(exe);
    cmd.args(&args[1..]).env("MC_CHILD", "1").env("MC_CRUMB", &crumb);
    unsafe {
        cmd.pre_exec(|| {
            libc::prctl(libc::PR_SET_PDEATHSIG, libc::SIGKILL);
            Ok(())
        });
    }
    let status = match cmd.status() {
        Ok(s) => s,
        Err(e) => {
            eprintln!("MACHINERY-ERROR cannot start the check process: {}", e);
            return 2;
        }
    };
    // the breadcrumbs of every thread that panicked (crumb.<pid>.<thread>): prefer one from the server's code
    let mut crumb_text: Option<String> = None;
    if let (Some(parent), Some(stem)) = (crumb.parent(), crumb.file_name().and_then(|n| n.to_str())) {
        if let Ok(rd) = std::fs::read_dir(parent) {
            for e in rd.flatten() {
                let name = e.file_name().to_string_lossy().to_string();
                if name.starts_with(stem) {
                    if !name.ends_with(".tmp") {
                        if let Ok(t) = std::fs::read_to_string(e.path()) {
                            let in_server = serde_json::from_str::<Value>(&t).ok().and_then(|v| v["panic"].as_str().map(|p| p.rsplit(" @ ").next().unwrap_or("").contains("memcrs/src"))).unwrap_or(false);
                            if in_server || crumb_text.is_none() {
                                crumb_text = Some(t);
                            }
                        }
                    }
                    let _ = std::fs::remove_file(e.path());
                }
            }
        }
    }
    if let Some(code) = status.code() {
        return code;
    }
    let sig = status.signal().unwrap_or(0);
    // which property was being decided
    let (prop, tier) = if args[1] == "check" {
        let tier = if args.iter().any(|a| a == "thorough") || std::env::var("VERIF_TIER").ok().as_deref() == Some("thorough") { "thorough" } else { "quick" };
        (args.get(2).cloned().unwrap_or_default(), tier.to_string())
    } else {
        let v: Value = args.get(2).and_then(|p| std::fs::read_to_string(p).ok()).and_then(|s| serde_json::from_str(&s).ok()).unwrap_or(Value::Null);
        (v["property"].as_str().unwrap_or("").to_string(), v["tier"].as_str().unwrap_or("quick").to_string())
    };
    let c: Value = crumb_text.as_deref().and_then(|t| serde_json::from_str(t).ok()).unwrap_or(Value::Null);
    let panic_text = c["panic"].as_str().unwrap_or("").to_string();
    let in_server_code = panic_text.rsplit(" @ ").next().map(|loc| loc.contains("memcrs/src")).unwrap_or(false);
    if prop != "C10" || !in_server_code || !matches!(sig, libc::SIGABRT | libc::SIGSEGV | libc::SIGILL | libc::SIGBUS) {
        eprintln!(
            "MACHINERY-ERROR property={} the check process died by signal {} (last panic: {}; doing: {}); a server crash is decided by C10's check",
            prop,
            sig,
            if panic_text.is_empty() { "none recorded" } else { &panic_text },
            c["doing"].as_str().unwrap_or("?")
        );
        return 2;
    }
    // a replayable artefact: the sequential engine's history if the abort happened there
    let seq = c["seq"].as_str().unwrap_or("");
    let parts: Vec<&str> = seq.splitn(3, '|').collect();
    let (replay, wherein) = if parts.len() == 3 && !parts[2].is_empty() {
        let hist: Vec<Value> = parts[2]
            .split(',')
            .filter_map(|e| {
                let (cmd, ch) = e.split_once(':')?;
                let choices: Vec<u64> = ch.split('.').filter(|x| !x.is_empty()).filter_map(|x| x.parse().ok()).collect();
                Some(json!({"cmd": cmd.parse::<u64>().ok()?, "choices": choices}))
            })
            .collect();
        (json!({"engine": "seq", "tier": tier, "config": parts[1], "history": hist}), format!("configuration {} after commands {}", parts[1], parts[2]))
    } else {
        (json!({"engine": "process-abort", "doing": c["doing"]}), format!("while {}", c["doing"].as_str().unwrap_or("?")))
    };
    let loc = panic_text.rsplit(" @ ").next().unwrap_or("").to_string();
    let out = CheckOutcome {
        property: "C10".into(),
        tier,
        level: "model_checking",
        coverage: json!({
            "states": 0, "transitions": 0, "traces_validated_against_impl": 0, "exhaustive": false,
            "rule": "the exploration ended when the process executing the server code was killed by a signal; nothing beyond the reported execution is covered by this run",
        }),
        assumptions: vec![],
        violations: vec![Violation {
            signature: format!("process-abort|{}", loc),
            what: format!("the process executing the request died by signal {} after a panic in the server's code ({}), {}", sig, panic_text, wherein),
            replay,
        }],
        wall_s: 0.0,
        machinery_error: None,
    };
    report::finish(out)
}

fn main() {
    let args: Vec<String> = std::env::args().collect();
    if args.len() < 2 {
        eprintln!("usage: mc check <Cxx> [--tier quick|thorough] | mc replay <file>");
        std::process::exit(2);
    }
    if matches!(args[1].as_str(), "check" | "replay") && std::env::var("MC_CHILD").is_err() {
        std::process::exit(supervise(&args));
    }
    sut::init_hooks();
    let code = match args[1].as_str() {
        "check" => {
            let id = args.get(2).cloned().unwrap_or_default();
            let mut tier = match std::env::var("VERIF_TIER").ok().as_deref() {
                Some("thorough") => Tier::Thorough,
                _ => Tier::Quick,
            };
            let mut i = 3;
            while i < args.len() {
                if args[i] == "--tier" && i + 1 < args.len() {
                    tier = if args[i + 1] == "thorough" { Tier::Thorough } else { Tier::Quick };
                    i += 1;
                }
                i += 1;
            }
            watchdog::start(if id.starts_with("C14") { "C14" } else { &id });
            let out = match id.as_str() {
                "C01" => {
                    let a = check_seq("C01", tier);
                    let b = check_sched::check("C01", tier, props_sched::c01_families(tier), &["linearizable", "no-panic", "deadlock", "livelock"], nthreads());
                    let t = a.tier.clone();
                    let c = opaque_differential("C01", tier);
                    let t1 = Instant::now();
                    let (mut n, mut viol, mut err) = check_c12::backpressure_gets(tier, &[wire::op::GET, wire::op::GETK, wire::op::GETQ]);
                    {
                        // a store acknowledged (or sent quietly) behind a large store is returned like any other
                        let (n2, v2, e2) = check_c12::large_then_followers(tier);
                        n += n2;
                        viol.extend(v2);
                        if err.is_none() {
                            err = e2;
                        }
                    }
                    let d = CheckOutcome {
                        property: "C01".into(),
                        tier: t.clone(),
                        level: "model_checking",
                        coverage: json!({
                            "states": n, "transitions": n, "traces_validated_against_impl": n, "evaluations": n, "distinct_nontrivial": n,
                            "exhaustive": true,
                            "rule": "large stored values read back through a full socket over real TCP: opcodes get/getk/getq x item sizes x pipelined counts; the client reads only after the server blocked on the full socket; every retrieval must return exactly the stored value bytes and flags; and a large store with a quiet store, two gets and a noop pipelined behind it (one write, and cut 1 .. 40 bytes behind the large request): both items come back exactly",
                        }),
                        assumptions: vec![],
                        violations: viol.into_iter().map(|(s, w)| Violation { signature: s, what: w, replay: json!({"engine": "c12-backpressure"}) }).collect(),
                        wall_s: t1.elapsed().as_secs_f64(),
                        machinery_error: err,
                    };
                    report::merge("C01", &t, vec![("sequential_histories", a), ("concurrent_other_key_all_schedules", b), ("opaque_independence_differential", c), ("large_values_through_a_full_socket", d)])
                }
                "C02" => check_seq("C02", tier),
                "C03" => check_sched::check("C03", tier, props_sched::c03_families(tier), &["linearizable", "token-duplicated", "no-panic"], nthreads()),
                "C04" => check_sched::check("C04", tier, props_sched::c04_families(tier), &["linearizable", "token-duplicated", "no-panic"], nthreads()),
                "C05" => {
                    let a = check_seq("C05", tier);
                    let b = check_sched::check("C05", tier, props_sched::c05_families(tier), &["linearizable", "expired-visible-after-race", "no-panic", "deadlock", "livelock"], nthreads());
                    let t = a.tier.clone();
                    report::merge("C05", &t, vec![("sequential_histories", a), ("expired_item_under_concurrent_collection_all_schedules", b)])
                }
                "C16" => {
                    let a = check_sched::check("C16", tier, props_sched::c16_families(tier), &["deadlock", "livelock"], nthreads());
                    let b = check_seq("C16", tier);
                    let t = a.tier.clone();
                    let t1 = Instant::now();
                    let (n, viol, err) = check_c12::unread_small_responses(tier);
                    let c = CheckOutcome {
                        property: "C16".into(),
                        tier: t.clone(),
                        level: "model_checking",
                        coverage: json!({
                            "states": n, "transitions": n, "traces_validated_against_impl": n, "evaluations": n, "distinct_nontrivial": n,
                            "exhaustive": true,
                            "rule": "socket level, real TCP server on one runtime thread: a client pipelines requests with small responses (noop, get miss; thorough also incr, version) and never reads until both socket buffers are full and the server is blocked; a connection opened earlier and a fresh one are still answered (one connection never blocks another), and when the first client reads at last it receives exactly one whole response per request; every step under the 30 s watchdog",
                        }),
                        assumptions: vec![],
                        violations: viol.into_iter().map(|(s, w)| Violation { signature: s, what: w, replay: json!({"engine": "c16-unread-small-responses"}) }).collect(),
                        wall_s: t1.elapsed().as_secs_f64(),
                        machinery_error: err,
                    };
                    report::merge("C16", &t, vec![("concurrent_programs_all_schedules", a), ("one_client_long_repetitions", b), ("one_connection_never_blocks_another_socket", c)])
                }
                "C14c" => check_sched::check("C14", tier, props_sched::c14_families(tier), &["over-limit", "over-limit-after-race", "over-limit-after-quiet-race", "deadlock", "livelock", "no-panic"], nthreads()),
                "C06" => {
                    let a = check_seq("C06", tier);
                    let b = check_sched::check("C06", tier, props_sched::c06_families(tier), &["linearizable", "no-panic", "deadlock", "livelock"], nthreads());
                    let t = a.tier.clone();
                    report::merge("C06", &t, vec![("sequential_histories", a), ("conditional_store_vs_concurrent_plain_command_all_schedules", b)])
                }
                "C07" => {
                    let a = check_seq("C07", tier);
                    let b = opaque_differential("C07", tier);
                    let t = a.tier.clone();
                    report::merge("C07", &t, vec![("sequential_histories", a), ("opaque_independence_differential", b)])
                }
                "C08" => {
                    let a = check_seq("C08", tier);
                    let b = check_sched::check("C08", tier, props_sched::c08_families(tier), &["linearizable", "no-panic", "deadlock", "livelock"], nthreads());
                    let t = a.tier.clone();
                    report::merge("C08", &t, vec![("sequential_histories", a), ("delete_vs_concurrent_commands_all_schedules", b)])
                }
                "C09" => check_c09::check(tier, nthreads()),
                "C10" => {
                    let a = check_c10::check(tier, nthreads());
                    let b = check_cross_only("C10", tier);
                    let t = a.tier.clone();
                    report::merge("C10", &t, vec![("header_boundary_grid", a), ("command_histories_of_every_sequential_alphabet", b)])
                }
                "C11" => {
                    let a = check_seq("C11", tier);
                    let t0 = Instant::now();
                    let (n, viol, err) = check_c12::backpressure(tier);
                    let b = CheckOutcome {
                        property: "C11".into(),
                        tier: a.tier.clone(),
                        level: "model_checking",
                        coverage: json!({
                            "states": n, "transitions": n, "traces_validated_against_impl": n, "evaluations": n, "distinct_nontrivial": n,
                            "samples": ["12 pipelined getk of a 1000000-byte item, nothing read until the server is blocked on the full socket"],
                            "exhaustive": true,
                            "rule": "write-side back-pressure over real TCP: item sizes x pipelined get counts; the client reads only after the server blocked on a full socket; every response frame must be whole and in order",
                        }),
                        assumptions: vec![],
                        violations: viol.into_iter().map(|(s, w)| Violation { signature: s, what: w, replay: json!({"engine": "c12-backpressure"}) }).collect(),
                        wall_s: t0.elapsed().as_secs_f64(),
                        machinery_error: err,
                    };
                    let t1 = Instant::now();
                    let (cn, cviol, cerr) = check_c12::correlation_across_connections(tier, nthreads());
                    let c = CheckOutcome {
                        property: "C11".into(),
                        tier: a.tier.clone(),
                        level: "model_checking",
                        coverage: json!({
                            "states": cn, "transitions": cn * 2, "traces_validated_against_impl": cn, "evaluations": cn, "distinct_nontrivial": cn,
                            "exhaustive": true,
                            "rule": "every stream <any request of the C12 alphabet> <quit | quitq | undefined opcode> <another request>, sent in one segment so that bytes stay unconsumed when the server closes; then a fresh connection sends one noop: exactly one response, the noop's own opcode and opaque; plus clients arriving at a full server (connection limit 1 and 2, silent or sending at once, four request kinds): no frame before a request was sent, and for the request sent at most one response, with its own opcode and opaque",
                        }),
                        assumptions: vec![],
                        violations: cviol.into_iter().map(|(s, w)| Violation { signature: s, what: w, replay: json!({"engine": "c12-next-connection"}) }).collect(),
                        wall_s: t1.elapsed().as_secs_f64(),
                        machinery_error: cerr,
                    };
                    let t = a.tier.clone();
                    report::merge("C11", &t, vec![("all_opcodes_all_outcomes_histories", a), ("socket_backpressure", b), ("correlation_across_connections", c)])
                }
                "C19" => {
                    let a = check_seq("C19", tier);
                    let t1 = Instant::now();
                    let (n, viol, err) = check_c12::quiet_vs_loud_long(tier, nthreads());
                    let b = CheckOutcome {
                        property: "C19".into(),
                        tier: a.tier.clone(),
                        level: "model_checking",
                        coverage: json!({
                            "states": n, "transitions": n, "traces_validated_against_impl": n, "evaluations": n, "distinct_nontrivial": n,
                            "exhaustive": true,
                            "rule": "long runs over real TCP: n in {19,20,21,25,130,300,...} x {set, get miss, incr, append} followed by a noop in one write, once loud and once as quiet twins: the loud run answers every command, the quiet run only the noop, and both leave the same items in the store",
                        }),
                        assumptions: vec![],
                        violations: viol.into_iter().map(|(s, w)| Violation { signature: s, what: w, replay: json!({"engine": "c19-long-quiet-run"}) }).collect(),
                        wall_s: t1.elapsed().as_secs_f64(),
                        machinery_error: err,
                    };
                    let t = a.tier.clone();
                    report::merge("C19", &t, vec![("loud_vs_toggled_histories", a), ("long_quiet_runs_over_tcp", b)])
                }
                "C12" => check_c12::check(tier, nthreads()),
                "C20" => {
                    let a = check_c20::check(tier);
                    let b = check_c20::policy_differential(tier, nthreads());
                    let t = a.tier.clone();
                    report::merge("C20", &t, vec![("server_processes_per_configuration", a), ("eviction_policy_differential_in_process", b)])
                }
                "C13" => check_c13::check(tier, nthreads()),
                "C17" => check_c17::check(tier, nthreads()),
                "C18" => check_c18::check(tier, nthreads()),
                "C14s" => check_seq("C14", tier),
                "C14" => {
                    let a = check_seq("C14", tier);
                    let b = check_sched::check("C14", tier, props_sched::c14_families(tier), &["over-limit", "over-limit-after-race", "over-limit-after-quiet-race", "deadlock", "livelock", "no-panic"], nthreads());
                    let t = a.tier.clone();
                    report::merge("C14", &t, vec![("sequential_histories_all_victims", a), ("concurrent_stores_all_schedules", b)])
                }
                "C15" => {
                    let a = check_seq("C15", tier);
                    let b = check_sched::check("C15", tier, props_sched::c15_families(tier), &["usage-overcount-concurrent", "usage-undercount-concurrent", "deadlock", "livelock", "no-panic"], nthreads());
                    let t = a.tier.clone();
                    report::merge("C15", &t, vec![("sequential_histories", a), ("concurrent_exact_programs_all_schedules", b)])
                }
                _ => {
                    eprintln!("unknown property {}", id);
                    std::process::exit(2);
                }
            };
            report::finish(out)
        }
        "prog" => {
            // mc prog <Cxx> <family> <index> [tier]: explore one program, print the result
            let id = args.get(2).cloned().unwrap_or_default();
            let fam_name = args.get(3).cloned().unwrap_or_default();
            let index: usize = args.get(4).and_then(|s| s.parse().ok()).unwrap_or(0);
            let tier = if args.get(5).map(|s| s.as_str()) == Some("thorough") { Tier::Thorough } else { Tier::Quick };
            let fams = match id.as_str() {
                "C03" => props_sched::c03_families(tier),
                "C04" => props_sched::c04_families(tier),
                "C16" => props_sched::c16_families(tier),
                "C15" => props_sched::c15_families(tier),
                "C01" => props_sched::c01_families(tier),
                "C05" => props_sched::c05_families(tier),
                "C08" => props_sched::c08_families(tier),
                _ => props_sched::c14_families(tier),
            };
            sut::set_quiet(true);
            sched::warm_up();
            for f in &fams {
                if f.name == fam_name {
                    let p = &f.programs[index];
                    println!("{}", p.describe());
                    let r = sched::explore_program(p, f.opts);
                    println!("{:#?}", r);
                }
            }
            0
        }
        "nettest" => {
            use wire::{op, Req};
            sut::set_quiet(true);
            let mut stream = vec![];
            stream.extend(Req::store(op::SET, b"k", b"hello", 5, 0, 0).opaque(1).bytes());
            stream.extend(Req::get(op::GET, b"k").opaque(2).bytes());
            stream.extend(Req::bare(op::NOOP).opaque(3).bytes());
            {
                let t = Instant::now();
                let w = net::NetWorld::new(net::NetCfg::default()).unwrap();
                let t1 = t.elapsed();
                let mut c = w.connect().unwrap();
                let t2 = t.elapsed();
                c.step(&w, &stream).unwrap();
                let t3 = t.elapsed();
                let d = w.dump();
                let t4 = t.elapsed();
                drop(c);
                drop(w);
                let t5 = t.elapsed();
                println!("new {:?} connect {:?} step {:?} dump {:?} drop {:?} ({})", t1, t2 - t1, t3 - t2, t4 - t3, t5 - t4, d.len());
            }
            let t0 = Instant::now();
            let base = net::run_stream(net::NetCfg::default(), &[&stream], false).unwrap();
            println!("unsegmented: {} bytes eof={} dump={:?}", base.received.len(), base.eof, base.dump.len());
            let mut n = 0;
            let mut diff = 0;
            for cut in 1..stream.len() {
                if cut < 4 {
                    let t = Instant::now();
                    let w = net::NetWorld::new(net::NetCfg::default()).unwrap();
                    let t1 = t.elapsed();
                    let mut c = w.connect().unwrap();
                    let t2 = t.elapsed();
                    c.step(&w, &stream[..cut]).unwrap();
                    let t3 = t.elapsed();
                    c.step(&w, &stream[cut..]).unwrap();
                    let t4 = t.elapsed();
                    drop(c);
                    drop(w);
                    let t5 = t.elapsed();
                    println!("new {:?} connect {:?} step1 {:?} step2 {:?} drop {:?}", t1, t2 - t1, t3 - t2, t4 - t3, t5 - t4);
                }
                let r = net::run_stream(net::NetCfg::default(), &[&stream[..cut], &stream[cut..]], false).unwrap();
                n += 1;
                if r.received != base.received {
                    diff += 1;
                }
            }
            println!("{} cuts, {} differ, {:.3}s", n, diff, t0.elapsed().as_secs_f64());
            0
        }
        "serve" => check_c20::serve(args[2..].to_vec()),
        "replay" => replay(args.get(2).map(|s| s.as_str()).unwrap_or("")),
        _ => {
            eprintln!("unknown command");
            2
        }
    };
    std::process::exit(code);
}
