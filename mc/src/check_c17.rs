//! C17: the connection limit is enforced and every way a connection can end returns its slot once.

use crate::check_c09::par_map;
use crate::net::{self, NetClient, NetCfg, NetWorld};
use crate::props::Tier;
use crate::report::{CheckOutcome, Violation};
use crate::wire::{self, op, Req};
use serde_json::json;
use std::collections::BTreeMap;
use std::time::Instant;

#[derive(Clone, Copy, Debug, PartialEq, Eq, Hash, PartialOrd, Ord)]
enum End {
    Close,
    Quit,
    QuitQ,
    MidRequest,
    BadMagic,
    Oversized,
    IdleTimeout,
    Reset,
    /// part of a normal request, then silence until the idle timeout
    MidRequestStall,
    /// header + part of the body of an oversized item, then silence until the idle timeout
    OversizedStall,
    /// quit, then the client hangs up without reading the answer (the server's answer meets a
    /// closed socket, its own shutdown fails)
    QuitHangUp,
    /// quit / quitq answered and closed by the server, but the client keeps its own socket open
    QuitLinger,
    QuitQLinger,
}
const ENDS: [End; 13] = [
    End::Close,
    End::Quit,
    End::QuitQ,
    End::MidRequest,
    End::BadMagic,
    End::Oversized,
    End::IdleTimeout,
    End::Reset,
    End::MidRequestStall,
    End::OversizedStall,
    End::QuitHangUp,
    End::QuitLinger,
    End::QuitQLinger,
];

struct Conn {
    c: NetClient,
    id: u32,
    alive: bool,
    served: bool,
    answered: usize,
}

fn noop(id: u32) -> Vec<u8> {
    Req::bare(op::NOOP).opaque(id).bytes()
}

fn count_noops(c: &NetClient) -> usize {
    let (r, _) = wire::split_responses(&c.got);
    r.iter().filter(|x| x.opcode == op::NOOP).count()
}

fn open(w: &NetWorld, id: u32) -> Result<Conn, String> {
    let mut c = w.connect()?;
    c.step(w, &noop(id))?;
    let served = count_noops(&c) == 1;
    Ok(Conn { c, id, alive: true, served, answered: if served { 1 } else { 0 } })
}

fn refresh(w: &NetWorld, conns: &mut [Conn]) {
    w.settle();
    for k in conns.iter_mut() {
        if k.alive {
            k.c.pump();
            let n = count_noops(&k.c);
            if n > 0 {
                k.served = true;
            }
            k.answered = n;
        }
    }
}

/// Invariant after every event: exactly min(alive, limit) connections are being served, and they
/// are the oldest alive ones.
fn check_served(limit: usize, conns: &[Conn], when: &str) -> Option<String> {
    let alive: Vec<&Conn> = conns.iter().filter(|c| c.alive).collect();
    let served = alive.iter().filter(|c| c.served).count();
    let want = alive.len().min(limit);
    if served > limit {
        return Some(format!("{}: {} connections served at once, limit {}", when, served, limit));
    }
    if served != want {
        return Some(format!("{}: {} of {} open connections served, expected {} (limit {})", when, served, alive.len(), want, limit));
    }
    None
}

fn end_conn(w: &NetWorld, conns: &mut Vec<Conn>, i: usize, kind: End, limit_item: u32) -> Option<String> {
    let served = conns[i].served;
    let kind = if served {
        kind
    } else if kind == End::Reset {
        End::Reset
    } else {
        End::Close // a connection that was never served can only go away
    };
    match kind {
        End::Close => conns[i].c.close(w),
        End::Reset => conns[i].c.abort(w),
        End::Quit => {
            let _ = conns[i].c.step(w, &Req::bare(op::QUIT).opaque(0x71).bytes());
            if !conns[i].c.eof {
                return Some("quit: connection not closed by the server".into());
            }
            conns[i].c.close(w);
        }
        End::QuitQ => {
            let _ = conns[i].c.step(w, &Req::bare(op::QUITQ).opaque(0x72).bytes());
            if !conns[i].c.eof {
                return Some("quitq: connection not closed by the server".into());
            }
            conns[i].c.close(w);
        }
        End::QuitLinger | End::QuitQLinger => {
            let opc = if kind == End::QuitLinger { op::QUIT } else { op::QUITQ };
            let _ = conns[i].c.step(w, &Req::bare(opc).opaque(0x76).bytes());
            if !conns[i].c.eof {
                return Some(format!("{:?}: connection not closed by the server", kind));
            }
            // the client's socket stays open (it is dropped with the scenario)
        }
        End::QuitHangUp => {
            let _ = conns[i].c.send(w, &Req::bare(op::QUIT).opaque(0x75).bytes());
            conns[i].c.close(w);
        }
        End::MidRequest => {
            let r = Req::store(op::SET, b"half", b"value-value", 0, 0, 0).bytes();
            let _ = conns[i].c.step(w, &r[..r.len() - 5]);
            conns[i].c.close(w);
        }
        End::BadMagic => {
            let mut r = Req::bare(op::NOOP).bytes();
            r[0] = 0x42;
            let _ = conns[i].c.step(w, &r);
            if !conns[i].c.eof {
                return Some("bad magic: connection not closed by the server".into());
            }
            conns[i].c.close(w);
        }
        End::Oversized => {
            let big = Req::store(op::SET, b"big", &vec![b'x'; limit_item as usize + 10], 0, 0, 0).opaque(0x73).bytes();
            let _ = conns[i].c.step(w, &big);
            conns[i].c.close(w);
        }
        End::IdleTimeout | End::MidRequestStall | End::OversizedStall => {
            if kind == End::MidRequestStall {
                let r = Req::store(op::SET, b"half", b"value-value", 0, 0, 0).bytes();
                let _ = conns[i].c.step(w, &r[..r.len() - 5]);
            }
            if kind == End::OversizedStall {
                let big = Req::store(op::SET, b"big", &vec![b'x'; limit_item as usize + 600], 0, 0, 0).opaque(0x74).bytes();
                let _ = conns[i].c.step(w, &big[..24 + 300]);
            }
            // keep the other served connections busy so that only this one is idle for > 60 s
            w.advance(30);
            for j in 0..conns.len() {
                if j != i && conns[j].alive && conns[j].served {
                    let id = conns[j].id;
                    let _ = conns[j].c.step(w, &noop(id));
                }
            }
            w.advance(31);
            conns[i].c.pump();
            if !conns[i].c.eof {
                return Some(format!("{:?}: connection not closed by the server after 61 s of silence", kind));
            }
            conns[i].c.close(w);
        }
    }
    conns[i].alive = false;
    None
}

struct Res {
    viol: Option<(String, String)>,
    events: u64,
}

fn scenario(limit: usize, kinds: &[End], reverse: bool) -> Result<Res, String> {
    let item_limit = 1024;
    let w = NetWorld::new(NetCfg { conn_limit: limit as u32, item_limit, ..Default::default() })?;
    let mut conns: Vec<Conn> = vec![];
    let mut events = 0u64;
    let name = format!("limit={} lifecycles={:?} end-order={}", limit, kinds, if reverse { "newest-first" } else { "oldest-first" });
    let fail = |sig: &str, what: String| -> Result<Res, String> { Ok(Res { viol: Some((sig.to_string(), format!("{}: {}", name, what))), events: 0 }) };
    for (i, _) in kinds.iter().enumerate() {
        conns.push(open(&w, 0x100 + i as u32)?);
        events += 1;
        refresh(&w, &mut conns);
        if let Some(p) = check_served(limit, &conns, &format!("after opening connection #{}", i)) {
            return fail("limit-while-opening", p);
        }
    }
    // clients that connect while every slot is taken, send nothing and give up while still queued
    // must neither take nor return a slot
    if kinds.iter().any(|k| matches!(k, End::Close | End::Reset)) && conns.iter().filter(|c| c.alive && c.served).count() == limit {
        for k in [End::Close, End::Reset] {
            if !kinds.contains(&k) {
                continue;
            }
            // (a connection the kernel does not take is the server not accepting: reported by the caller)
            let mut q = w.connect()?;
            if k == End::Close {
                q.close(&w);
            } else {
                q.abort(&w);
            }
            events += 1;
        }
        refresh(&w, &mut conns);
        if let Some(p) = check_served(limit, &conns, "after silent queued clients gave up") {
            return fail("limit-after-queued-client-left", p);
        }
    }
    let order: Vec<usize> = if reverse { (0..kinds.len()).rev().collect() } else { (0..kinds.len()).collect() };
    for i in order {
        let kind = kinds[i];
        if let Some(p) = end_conn(&w, &mut conns, i, kind, item_limit) {
            return fail(&format!("ending|{:?}", kind), p);
        }
        events += 1;
        refresh(&w, &mut conns);
        if let Some(p) = check_served(limit, &conns, &format!("after connection #{} ended by {:?}", i, kind)) {
            return fail(&format!("slot-after|{:?}", kind), p);
        }
    }
    // connections that are reset before the server ever accepted them must not hurt the accept loop
    if kinds.contains(&End::Reset) {
        for _ in 0..2 {
            let mut c = w.connect_nosettle()?;
            c.abort(&w);
        }
        w.settle();
    }
    // probe: the server must again serve exactly `limit` fresh connections
    let mut probe: Vec<Conn> = vec![];
    for i in 0..=limit {
        probe.push(open(&w, 0x900 + i as u32)?);
        events += 1;
    }
    refresh(&w, &mut probe);
    let served = probe.iter().filter(|c| c.served).count();
    if served != limit {
        let last: Vec<String> = kinds.iter().map(|k| format!("{:?}", k)).collect();
        return fail(
            &format!("probe|{}", if served < limit { "slots-lost" } else { "too-many" }),
            format!("after the history [{}] {} of {} fresh connections are served, expected exactly {}", last.join(","), served, limit + 1, limit),
        );
    }
    if !probe[limit].served {
        probe[0].c.close(&w);
        probe[0].alive = false;
        refresh(&w, &mut probe);
        if !probe[limit].served {
            return fail("probe|not-picked-up", "the waiting connection was not served after a slot was freed".into());
        }
    }
    if !w.server_alive() {
        return fail("server-died", "the accept loop ended".into());
    }
    Ok(Res { viol: None, events })
}

/// limit 1: one connection that ends (closes, or stalls until the idle timeout) at byte offset
/// `off` of a request; afterwards exactly one fresh connection is served, a second one waits.
fn offset_scenario(off: usize, stall: bool, oversized: bool) -> Result<Option<(String, String)>, String> {
    let item_limit = 1024u32;
    let w = NetWorld::new(NetCfg { conn_limit: 1, item_limit, ..Default::default() })?;
    let req = if oversized {
        Req::store(op::SET, b"big", &vec![b'x'; item_limit as usize + 40], 0, 0, 0).bytes()
    } else {
        Req::store(op::SET, b"half", b"value-value-value", 0, 0, 0).bytes()
    };
    let off = off.min(req.len());
    let mut c = w.connect()?;
    if off > 0 {
        let _ = c.step(&w, &req[..off]);
    }
    if stall {
        w.advance(61);
        c.pump();
        if !c.eof && off < req.len() {
            return Ok(Some((
                "offset|not-timed-out".into(),
                format!("connection silent after {} of {} request bytes is still open after 61 s", off, req.len()),
            )));
        }
    }
    c.close(&w);
    let mut a = open(&w, 0xa1)?;
    let mut b = open(&w, 0xa2)?;
    w.settle();
    a.c.pump();
    b.c.pump();
    let served = [count_noops(&a.c), count_noops(&b.c)];
    if served != [1, 0] {
        return Ok(Some((
            format!("offset|slot-{}", if served[0] == 0 { "lost" } else { "doubled" }),
            format!(
                "limit 1: after a connection that {} at byte {} of a {}request, fresh connections answered {:?}, expected [1, 0]",
                if stall { "stalled until the idle timeout" } else { "was closed" },
                off,
                if oversized { "oversized " } else { "" },
                served
            ),
        )));
    }
    Ok(None)
}

/// Connections that queue behind a full limit without having sent anything, for `wait` seconds of
/// virtual time while the slot holders stay active; then `ender` frees one slot: the oldest queued
/// client sends its first request only now and must be served, the next one as soon as that one leaves.
fn queued_wait_scenario(limit: usize, wait: u64, ender: End) -> Result<Option<(String, String)>, String> {
    let item_limit = 1024;
    let w = NetWorld::new(NetCfg { conn_limit: limit as u32, item_limit, ..Default::default() })?;
    let name = format!("limit={} queued clients silent for {} s, slot freed by {:?}", limit, wait, ender);
    let mut holders: Vec<Conn> = vec![];
    for i in 0..limit {
        holders.push(open(&w, 0x300 + i as u32)?);
    }
    refresh(&w, &mut holders);
    if holders.iter().filter(|c| c.served).count() != limit {
        return Ok(Some(("queued|holders-not-served".into(), format!("{}: not all of the first {} connections are served", name, limit))));
    }
    // two clients connect and stay silent
    let mut q1 = w.connect()?;
    let mut q2 = w.connect()?;
    let mut waited = 0u64;
    while waited < wait {
        let step = (wait - waited).min(30);
        w.advance(step);
        waited += step;
        for h in holders.iter_mut() {
            let id = h.id;
            let _ = h.c.step(&w, &noop(id));
        }
    }
    if let Some(p) = end_conn(&w, &mut holders, 0, ender, item_limit) {
        return Ok(Some((format!("queued|ending|{:?}", ender), format!("{}: {}", name, p))));
    }
    w.settle();
    let _ = q1.step(&w, &noop(0x401));
    let _ = q2.step(&w, &noop(0x402));
    w.settle();
    q1.pump();
    q2.pump();
    let a = [count_noops(&q1), count_noops(&q2)];
    if a != [1, 0] || q1.eof || q2.eof {
        return Ok(Some((
            "queued|not-picked-up".into(),
            format!(
                "{}: the two queued clients then sent a noop each and received {:?} answers (closed by the server: {} / {}), expected [1, 0] and both open",
                name, a, q1.eof, q2.eof
            ),
        )));
    }
    q1.close(&w);
    w.settle();
    q2.pump();
    if count_noops(&q2) != 1 || q2.eof {
        return Ok(Some((
            "queued|second-not-picked-up".into(),
            format!("{}: after the first queued client left, the second one has {} answers (closed by the server: {})", name, count_noops(&q2), q2.eof),
        )));
    }
    Ok(None)
}

/// Several accept loops share the one semaphore (current-thread runtime with --threads N): while
/// `held` < limit connections are open, each of 16 fresh connections opened one after another
/// must be served at once, whichever listener the kernel hands it to.
fn multi_listener_scenario(limit: usize, listeners: u8, held: usize) -> Result<Option<(String, String)>, String> {
    let w = NetWorld::new(NetCfg { conn_limit: limit as u32, listeners, ..Default::default() })?;
    let name = format!("limit={} listeners={} connections held open={}", limit, listeners, held);
    let mut holders: Vec<Conn> = vec![];
    for i in 0..held {
        holders.push(open(&w, 0x500 + i as u32)?);
    }
    refresh(&w, &mut holders);
    if holders.iter().filter(|c| c.served).count() != held {
        return Ok(Some((
            "listeners|holders-not-served".into(),
            format!("{}: only {} of the {} first connections are served", name, holders.iter().filter(|c| c.served).count(), held),
        )));
    }
    for round in 0..16u32 {
        let mut c = open(&w, 0x600 + round)?;
        w.settle();
        c.c.pump();
        if count_noops(&c.c) != 1 {
            return Ok(Some((
                "listeners|fresh-not-served".into(),
                format!("{}: fresh connection #{} was not served although only {} of {} slots are taken", name, round, held, limit),
            )));
        }
        c.c.close(&w);
        w.settle();
    }
    // and the limit still holds: limit - held more are served, the next one waits
    let mut extra: Vec<Conn> = vec![];
    for i in 0..(limit - held + 1) {
        extra.push(open(&w, 0x700 + i as u32)?);
    }
    refresh(&w, &mut extra);
    let served = extra.iter().filter(|c| c.served).count();
    if served != limit - held {
        return Ok(Some((
            format!("listeners|{}", if served > limit - held { "too-many" } else { "slots-lost" }),
            format!("{}: of {} further connections {} are served, expected {}", name, limit - held + 1, served, limit - held),
        )));
    }
    Ok(None)
}

pub fn check(tier: Tier, threads: usize) -> CheckOutcome {
    let t0 = Instant::now();
    let limits: Vec<usize> = if tier == Tier::Quick { vec![1, 2] } else { vec![1, 2, 3, 4] };
    let mut cases: Vec<(usize, Vec<End>, bool)> = vec![];
    for &l in &limits {
        let maxn = if tier == Tier::Thorough && l == 4 { l + 1 } else { l + 2 };
        for n in 1..=maxn {
            let mut idx = vec![0usize; n];
            loop {
                let kinds: Vec<End> = idx.iter().map(|i| ENDS[*i]).collect();
                cases.push((l, kinds.clone(), false));
                if n > 1 {
                    cases.push((l, kinds, true));
                }
                let mut p = 0;
                while p < n {
                    idx[p] += 1;
                    if idx[p] < ENDS.len() {
                        break;
                    }
                    idx[p] = 0;
                    p += 1;
                }
                if p == n {
                    break;
                }
            }
        }
    }
    // quick tier keeps the 3-lifecycle histories to those with at most one stall (virtual-time heavy)
    if tier == Tier::Quick {
        cases.retain(|(l, k, _)| {
            *l == 1 || k.len() <= 3 || k.iter().filter(|e| matches!(e, End::MidRequestStall | End::OversizedStall | End::IdleTimeout)).count() <= 1
        });
    }
    crate::watchdog::working_on("C17 connection lifecycles".into());
    let results = par_map(&cases, threads, |_, (l, k, r)| scenario(*l, k, *r));
    let mut found: BTreeMap<String, Violation> = BTreeMap::new();
    let mut mach = None;
    let mut events = 0u64;
    for ((l, k, r), res) in cases.iter().zip(results.iter()) {
        match res {
            Err(e) if e.starts_with("connect:") => {
                let sig = "server|not-accepting".to_string();
                found.entry(sig.clone()).or_insert(Violation {
                    signature: sig,
                    what: format!("limit={} lifecycles={:?}: the server stopped accepting connections ({})", l, k, e),
                    replay: json!({"engine": "c17", "limit": l, "lifecycles": k.iter().map(|e| format!("{:?}", e)).collect::<Vec<_>>(), "reverse": r}),
                });
            }
            Err(e) => mach = Some(format!("limit {} {:?}: {}", l, k, e)),
            Ok(res) => {
                events += res.events;
                if let Some((sig, what)) = &res.viol {
                    found.entry(sig.clone()).or_insert(Violation {
                        signature: sig.clone(),
                        what: what.clone(),
                        replay: json!({"engine": "c17", "limit": l, "lifecycles": k.iter().map(|e| format!("{:?}", e)).collect::<Vec<_>>(), "reverse": r}),
                    });
                }
            }
        }
    }
    // every byte offset of a request (normal and oversized), closed there or stalled until the timeout
    let mut offs: Vec<(usize, bool, bool)> = vec![];
    for off in 0..=46 {
        offs.push((off, false, false));
        offs.push((off, true, false));
    }
    for off in [0usize, 1, 23, 24, 25, 100, 500, 1023, 1024, 1025, 1090, 1095, 1096] {
        offs.push((off, false, true));
        offs.push((off, true, true));
    }
    let ores = par_map(&offs, threads, |_, (o, s, big)| offset_scenario(*o, *s, *big));
    for ((o, st, big), r) in offs.iter().zip(ores.iter()) {
        match r {
            Err(e) if e.starts_with("connect:") => {
                found.entry("server|not-accepting".into()).or_insert(Violation {
                    signature: "server|not-accepting".into(),
                    what: format!("offset {} stall {} oversized {}: {}", o, st, big, e),
                    replay: json!({"engine": "c17-offset"}),
                });
            }
            Err(e) => mach = Some(e.clone()),
            Ok(Some((sig, what))) => {
                found.entry(sig.clone()).or_insert(Violation { signature: sig.clone(), what: what.clone(), replay: json!({"engine": "c17-offset", "offset": o, "stall": st, "oversized": big}) });
            }
            Ok(None) => {}
        }
    }
    events += offs.len() as u64 * 4;
    // silent clients queued behind a full limit for 0 .. 150 s of virtual time
    let mut qcases: Vec<(usize, u64, End)> = vec![];
    for l in if tier == Tier::Quick { vec![1usize, 2] } else { vec![1usize, 2, 3, 4] } {
        for wait in [0u64, 30, 59, 61, 90, 150] {
            for e in [End::Close, End::Quit, End::QuitQ, End::Reset, End::BadMagic] {
                qcases.push((l, wait, e));
            }
        }
    }
    let qres = par_map(&qcases, threads, |_, (l, wt, e)| queued_wait_scenario(*l, *wt, *e));
    for ((l, wt, e), r) in qcases.iter().zip(qres.iter()) {
        match r {
            Err(er) if er.starts_with("connect:") => {
                found.entry("server|not-accepting".into()).or_insert(Violation {
                    signature: "server|not-accepting".into(),
                    what: format!("limit {} queued {} s {:?}: {}", l, wt, e, er),
                    replay: json!({"engine": "c17-queued"}),
                });
            }
            Err(er) => mach = Some(er.clone()),
            Ok(Some((sig, what))) => {
                found.entry(sig.clone()).or_insert(Violation { signature: sig.clone(), what: what.clone(), replay: json!({"engine": "c17-queued", "limit": l, "wait": wt, "ender": format!("{:?}", e)}) });
            }
            Ok(None) => {}
        }
    }
    events += qcases.len() as u64 * 8;
    // several accept loops on one semaphore
    let mut lcases: Vec<(usize, u8, usize)> = vec![];
    for listeners in if tier == Tier::Quick { vec![2u8] } else { vec![2u8, 3, 4] } {
        for (l, h) in [(1usize, 0usize), (2, 0), (2, 1), (3, 1), (3, 2), (4, 3)] {
            lcases.push((l, listeners, h));
        }
    }
    let lres = par_map(&lcases, threads, |_, (l, n, h)| multi_listener_scenario(*l, *n, *h));
    for ((l, n, h), r) in lcases.iter().zip(lres.iter()) {
        match r {
            Err(er) if er.starts_with("connect:") => {
                found.entry("server|not-accepting".into()).or_insert(Violation {
                    signature: "server|not-accepting".into(),
                    what: format!("limit {} listeners {} held {}: {}", l, n, h, er),
                    replay: json!({"engine": "c17-listeners"}),
                });
            }
            Err(er) => mach = Some(er.clone()),
            Ok(Some((sig, what))) => {
                found.entry(sig.clone()).or_insert(Violation { signature: sig.clone(), what: what.clone(), replay: json!({"engine": "c17-listeners", "limit": l, "listeners": n, "held": h}) });
            }
            Ok(None) => {}
        }
    }
    events += lcases.len() as u64 * 20;
    // a crowd: many more clients than slots connect at once and wait; each time a served one leaves,
    // exactly the next one in line is picked up
    let mut wcases: Vec<(usize, usize)> = vec![];
    for l in [1usize, 2, 4] {
        for n in [3 * l + 6, 40] {
            wcases.push((l, n));
        }
    }
    let wres = par_map(&wcases, threads, |_, (l, n)| many_waiters_scenario(*l, *n));
    for ((l, n), r) in wcases.iter().zip(wres.iter()) {
        match r {
            Err(er) if er.starts_with("connect:") => {
                found.entry("waiters|not-queued".into()).or_insert(Violation {
                    signature: "waiters|not-queued".into(),
                    what: format!("limit {}: of {} clients connecting at once (listen backlog 128) one could not even connect: {}", l, n, er),
                    replay: json!({"engine": "c17-waiters"}),
                });
            }
            Err(er) => mach = Some(er.clone()),
            Ok(Some((sig, what))) => {
                found.entry(sig.clone()).or_insert(Violation { signature: sig.clone(), what: what.clone(), replay: json!({"engine": "c17-waiters", "limit": l, "clients": n}) });
            }
            Ok(None) => {}
        }
    }
    events += wcases.iter().map(|(_, n)| 2 * *n as u64).sum::<u64>();
    // connections that end while the server still owes them bytes
    let ucases: Vec<(usize, usize, usize)> = vec![(1, 8192, 1), (1, 8192, 4), (2, 8192, 1), (1, 100_000, 1), (2, 300_000, 2)];
    crate::watchdog::working_on("C17 slow consumers dropped by the idle timeout while responses are still queued for them".into());
    for (l, v, g) in &ucases {
        crate::watchdog::beat();
        match unread_response_then_idle(*l, *v, *g) {
            Err(er) if er.starts_with("connect:") => {
                found.entry("server|not-accepting".into()).or_insert(Violation { signature: "server|not-accepting".into(), what: format!("limit {} unread responses: {}", l, er), replay: json!({"engine": "c17-unread"}) });
            }
            Err(er) => mach = Some(er),
            Ok(Some((sig, what))) => {
                found.entry(sig.clone()).or_insert(Violation { signature: sig, what, replay: json!({"engine": "c17-unread", "limit": l, "value": v, "gets": g}) });
            }
            Ok(None) => {}
        }
    }
    crate::watchdog::idle();
    events += ucases.len() as u64 * 6;
    let samples: Vec<serde_json::Value> = cases
        .iter()
        .step_by((cases.len() / 5).max(1))
        .take(5)
        .map(|(l, k, r)| json!({"limit": l, "lifecycles": format!("{:?}", k), "ended_newest_first": r}))
        .collect();
    CheckOutcome {
        property: "C17".into(),
        tier: if tier == Tier::Quick { "quick".into() } else { "thorough".into() },
        level: "fault_enumeration",
        coverage: json!({
            "evaluations": cases.len() + offs.len(),
            "distinct_nontrivial": cases.len() + offs.len(),
            "states": cases.len() + offs.len(),
            "byte_offset_scenarios": offs.len(),
            "queued_silent_client_scenarios": qcases.len(),
            "several_accept_loops_scenarios": lcases.len(),
            "crowd_scenarios": wcases.len(),
            "slow_consumer_dropped_with_responses_queued_scenarios": ucases.len(),
            "transitions": events,
            "traces_validated_against_impl": cases.len(),
            "limits": limits,
            "ending_kinds": ENDS.iter().map(|e| format!("{:?}", e)).collect::<Vec<_>>(),
            "samples": samples,
            "exhaustive": true,
            "rule": "for each limit: every sequence of up to limit+2 connection lifecycles over 8 ending kinds (client close, quit, quitq, close mid-request, bad magic, oversized item then close, idle timeout in virtual time, abortive reset), all opened concurrently (those beyond the limit wait unserved) and ended oldest-first and newest-first; after every event exactly min(open, limit) connections are served; then limit+1 fresh probes: exactly limit answered, the extra one as soon as a slot frees. Real accept loop and semaphore on loopback TCP, paused tokio clock",
        }),
        assumptions: vec!["tokio paused-clock quiescence (settle) and virtual-time idle timeouts; Linux loopback".into()],
        violations: found.into_values().collect(),
        wall_s: t0.elapsed().as_secs_f64(),
        machinery_error: mach,
    }
}

/// `n` clients (far more than `limit`, fewer than the listen backlog) connect at once and send a
/// noop: exactly `limit` are served, the others wait; then the oldest served one leaves, again and
/// again, and each time exactly the next client in line is picked up.
fn many_waiters_scenario(limit: usize, n: usize) -> Result<Option<(String, String)>, String> {
    let w = NetWorld::new(NetCfg { conn_limit: limit as u32, ..Default::default() })?;
    let name = format!("limit={} clients={}", limit, n);
    let mut conns: Vec<Conn> = vec![];
    for i in 0..n {
        conns.push(open(&w, 0xa00 + i as u32)?);
    }
    refresh(&w, &mut conns);
    if let Some(p) = check_served(limit, &conns, "after all clients connected") {
        return Ok(Some(("waiters|limit".into(), format!("{}: {}", name, p))));
    }
    for i in 0..n {
        conns[i].c.close(&w);
        conns[i].alive = false;
        refresh(&w, &mut conns);
        if let Some(p) = check_served(limit, &conns, &format!("after client #{} left", i)) {
            return Ok(Some(("waiters|not-picked-up".into(), format!("{}: {}", name, p))));
        }
        // in line: the served ones are the oldest alive
        let alive: Vec<&Conn> = conns.iter().filter(|c| c.alive).collect();
        if alive.iter().take(limit).any(|c| !c.served) {
            return Ok(Some(("waiters|order".into(), format!("{}: after client #{} left a later client is served before an earlier one", name, i))));
        }
    }
    if !w.server_alive() {
        return Ok(Some(("server-died".into(), format!("{}: the accept loop ended", name))));
    }
    Ok(None)
}

/// A connection that ends while the server still owes it bytes: a slow consumer (small receive
/// buffer) stores a value, asks for it `gets` times, never reads the answers and goes silent; the
/// idle timeout drops it.  The client queued behind it is served at that moment, and afterwards the
/// server serves exactly `limit` fresh connections.
fn unread_response_then_idle(limit: usize, value_len: usize, gets: usize) -> Result<Option<(String, String)>, String> {
    let w = NetWorld::new(NetCfg { conn_limit: limit as u32, item_limit: 1 << 20, ..Default::default() })?;
    let name = format!("limit={} value={}B unread gets={}", limit, value_len, gets);
    let mut holders: Vec<Conn> = vec![];
    for i in 0..limit.saturating_sub(1) {
        holders.push(open(&w, 0xb00 + i as u32)?);
    }
    let mut a = w.connect()?;
    a.set_rcvbuf(2048);
    a.step(&w, &Req::store(op::SET, b"owed", &vec![b'o'; value_len], 0, 0, 0).opaque(0xb10).bytes())?;
    let mut reqs = vec![];
    for i in 0..gets {
        reqs.extend(Req::get(op::GET, b"owed").opaque(0xb20 + i as u32).bytes());
    }
    // (never read from here on)
    let _ = a.send_never_reading(&w, &reqs);
    let mut waiter = open(&w, 0xb30)?;
    if waiter.served {
        return Ok(Some(("unread|limit".into(), format!("{}: a client beyond the limit is served while the slow consumer holds its slot", name))));
    }
    // the holders stay active, the slow consumer says nothing for 61 s
    for _ in 0..2 {
        w.advance(30);
        for (i, h) in holders.iter_mut().enumerate() {
            let _ = h.c.step(&w, &noop(0xb40 + i as u32));
        }
    }
    w.advance(2);
    let mut ws = [waiter];
    refresh(&w, &mut ws);
    let [w0] = ws;
    waiter = w0;
    if !waiter.served {
        return Ok(Some((
            "unread|not-picked-up".into(),
            format!("{}: the slow consumer was silent for 62 s (idle timeout 60 s) but the client queued behind it is still not served", name),
        )));
    }
    waiter.c.close(&w);
    for h in holders.iter_mut() {
        h.c.close(&w);
    }
    let mut probe: Vec<Conn> = vec![];
    for i in 0..=limit {
        probe.push(open(&w, 0xb50 + i as u32)?);
    }
    refresh(&w, &mut probe);
    let served = probe.iter().filter(|c| c.served).count();
    if served != limit || !w.server_alive() {
        return Ok(Some(("unread|slots".into(), format!("{}: afterwards {} of {} fresh connections are served, expected {}", name, served, limit + 1, limit))));
    }
    Ok(None)
}

#[allow(dead_code)]
fn _unused(_: net::NetCfg) {}

pub fn replay(v: &serde_json::Value) -> Result<Option<String>, String> {
    if v["engine"].as_str() == Some("c17-queued") {
        let l = v["limit"].as_u64().unwrap_or(1) as usize;
        let wt = v["wait"].as_u64().unwrap_or(0);
        let e = ENDS.iter().copied().find(|e| Some(format!("{:?}", e).as_str()) == v["ender"].as_str()).ok_or("unknown ending kind")?;
        let a = queued_wait_scenario(l, wt, e)?;
        let b = queued_wait_scenario(l, wt, e)?;
        if a != b {
            return Err("two replays of the same scenario differ".into());
        }
        return Ok(a.map(|(s, w)| format!("{}: {}", s, w)));
    }
    if v["engine"].as_str() == Some("c17-offset") {
        let (o, st, big) = (v["offset"].as_u64().unwrap_or(0) as usize, v["stall"].as_bool().unwrap_or(false), v["oversized"].as_bool().unwrap_or(false));
        let a = offset_scenario(o, st, big)?;
        let b = offset_scenario(o, st, big)?;
        if a != b {
            return Err("two replays of the same scenario differ".into());
        }
        return Ok(a.map(|(s, w)| format!("{}: {}", s, w)));
    }
    let limit = v["limit"].as_u64().unwrap_or(1) as usize;
    let kinds: Vec<End> = v["lifecycles"]
        .as_array()
        .map(|a| a.iter().filter_map(|x| ENDS.iter().copied().find(|e| Some(format!("{:?}", e).as_str()) == x.as_str())).collect())
        .unwrap_or_default();
    let reverse = v["reverse"].as_bool().unwrap_or(false);
    let a = scenario(limit, &kinds, reverse)?.viol;
    let b = scenario(limit, &kinds, reverse)?.viol;
    if a != b {
        return Err("two replays of the same scenario differ".into());
    }
    Ok(a.map(|(s, w)| format!("{}: {}", s, w)))
}
