//! RefModel: the specification automaton of DESIGN.md Appendix A.
//!
//! It is not a second implementation: for a command and the observed outcome it answers which
//! clauses of which properties the outcome breaks (none = allowed) and moves to the next state.
//! Where the properties leave behaviour open it adopts what the implementation did.

#![allow(dead_code)]

use crate::cmd::{CasArg, Cmd, Tick};
use crate::sut::DumpItem;
use crate::wire::Resp;
use std::collections::{BTreeMap, BTreeSet};

pub const INF: u64 = u64::MAX;

#[derive(Clone, Copy, Debug, PartialEq, Eq, Hash)]
pub enum Evict {
    /// no eviction may ever happen (policy none, or random with an unreachable limit)
    Off,
    /// random policy, limit far above the live set: losing a live item is a C15 violation
    Generous,
    /// random policy with a tight limit: any store may evict any other key (C14 runs)
    Tight,
}

#[derive(Clone, Copy, Debug, PartialEq, Eq, Hash)]
pub enum Gone {
    Never,
    Deleted,
    Flushed,
    Evicted,
    Resync,
}

#[derive(Clone, Copy, Debug, PartialEq, Eq, Hash)]
pub enum TombWhy {
    Ttl,
    FlushDeadline,
    Sticky,
}

#[derive(Clone, Debug, PartialEq, Eq, Hash)]
pub struct Item {
    pub value: Vec<u8>,
    pub flags: u32,
    pub tok: u64,
    /// get must hit while now < lower
    pub lower: u64,
    /// get must miss from upper on (upper <= own_upper)
    pub upper: u64,
    /// upper bound from the item's own TTLs only (ignoring delayed flushes)
    pub own_upper: u64,
    /// TTL values the implementation may be holding for this item
    pub ttl_cands: BTreeSet<u32>,
    /// time of the last successful mutation
    pub stamp: u64,
    /// tokens carried during the current lifetime
    pub carried: BTreeSet<u64>,
    /// lifetime begun by a store with CAS != 0 on an absent key: outside the uniqueness claim
    pub exempt: bool,
}

#[derive(Clone, Debug, PartialEq, Eq, Hash)]
pub enum KeyState {
    Absent(Gone),
    /// expired; the implementation may still hold the record
    Tomb(TombWhy),
    Item(Item),
}

#[derive(Clone, Debug, PartialEq, Eq, Hash)]
pub struct KeyInfo {
    pub st: KeyState,
    /// tokens issued for this key earlier (most recent first, distinct, != current)
    pub stale: Vec<u64>,
    /// every token the server's own generator has issued for this key, over all lifetimes (tokens
    /// of lifetimes begun with a client-supplied CAS are not recorded): a client may still hold any
    /// of them, so none may ever name another version of the key
    pub issued: std::collections::BTreeSet<u64>,
}

impl Default for KeyInfo {
    fn default() -> Self {
        KeyInfo { st: KeyState::Absent(Gone::Never), stale: vec![], issued: Default::default() }
    }
}

#[derive(Clone, Debug)]
pub struct Viol {
    pub clause: &'static str,
    pub detail: String,
    /// refinement of the clause that is part of a finding's identity (may be empty)
    pub tag: String,
}

/// What the harness observed for one command.
#[derive(Clone, Debug, Default)]
pub struct Observed {
    pub resps: Vec<Resp>,
    pub residue: usize,
    pub panic: Option<String>,
    pub decode_err: Option<String>,
}

#[derive(Clone, Debug)]
pub struct Model {
    pub now: u64,
    pub keys: BTreeMap<Vec<u8>, KeyInfo>,
    pub evict: Evict,
    /// memory limit of the random policy (C14 bound), if any
    pub mem_limit: Option<u64>,
    /// size of the record most recently written (C14 bound)
    pub last_written: u64,
    /// item size limit of the connection (requests with a larger body must be answered 0x03)
    pub item_limit: Option<u32>,
}

/// Which properties own a clause.
pub fn owners(clause: &str) -> &'static [&'static str] {
    match clause {
        "must-hit" | "stored-expiry-short" => &["C01", "C05"],
        "expired-visible-cond" => &["C05", "C06"],
        "expired-visible-counter" => &["C05", "C07"],
        "flush-deadline-cond" => &["C08", "C06"],
        "flush-deadline-counter" => &["C08", "C07"],
        "value-exact" | "flags-exact" | "cas-nonzero" => &["C01"],
        "cas-reported" => &["C01", "C02"],
        "other-key-changed" => &["C01", "C08"],
        "stored-exactly" => &["C01"],
        "phantom-item" => &["C01"],
        "store-must-succeed" => &["C01", "C02"],
        "cas-should-succeed" | "cas-should-fail" | "cas-fail-status" | "cas-fail-modified" | "token-zero"
        | "token-reused" | "token-reissued" | "token-ack" => &["C02"],
        "must-miss-ttl" | "resurrected" | "expired-visible" | "expiry-prolonged" | "expiry-shortened" | "rejected-changed-expiry" | "stored-expiry" => &["C05"],
        // the flags a retrieval returns are the stored ones: a command that carries no flags and changes
        // them breaks read-your-writes (C01) as well as its own family's rule
        "concat-flags" => &["C06", "C01"],
        "counter-flags" => &["C07", "C01"],
        "add-on-present" | "add-on-absent" | "replace-on-absent" | "replace-on-present" | "concat-on-absent"
        | "concat-value" | "concat-must-succeed" | "rejected-modified" | "nothing-stored"
        | "conditional-store-effect" => &["C06"],
        "counter-value" | "counter-text" | "counter-nonnumeric" | "counter-create"
        | "counter-ffffffff" | "counter-must-succeed" => &["C07"],
        "delete-status" | "delete-not-removed" | "flush-immediate" | "flush-deadline" | "flush-status"
        | "removed-visible" | "store-after-flush-affected" => &["C08"],
        "no-panic" | "decode-error-on-valid" => &["C10"],
        "frame" | "frame-residue" => &["C11"],
        "one-response" => &["C11", "C12"],
        "quiet-silent" | "quiet-error-loud" | "quiet-hit-loud" => &["C12", "C19"],
        "over-limit" | "own-record-evicted" => &["C14"],
        "too-large" => &["C13", "C11"],
        "too-large-modified-cond" => &["C06"],
        "too-large-modified-cas" => &["C02"],
        "live-item-lost" | "usage-drift" | "usage-nonzero-empty" => &["C15"],
        _ => &[],
    }
}

pub fn t_inf(now: u64, ttl: u32) -> u64 {
    if ttl == 0 {
        INF
    } else {
        now + ttl as u64
    }
}

/// Classification of a stored text for incr/decr.
#[derive(Clone, Debug, PartialEq, Eq)]
pub enum Num {
    /// ASCII decimal digits only, fits u64
    Strict(u64),
    /// digits with a sign or blanks around: success with this reading (if any) or 'non-numeric'
    Loose(Option<u64>),
    No,
}

pub fn classify_number(text: &[u8]) -> Num {
    if !text.is_empty() && text.iter().all(|c| c.is_ascii_digit()) {
        let s = std::str::from_utf8(text).unwrap();
        return match s.parse::<u64>() {
            Ok(v) => Num::Strict(v),
            Err(_) => Num::No, // digits only but > 2^64-1
        };
    }
    // blanks around and/or a sign in front of digits
    let s = match std::str::from_utf8(text) {
        Ok(s) => s,
        Err(_) => return Num::No,
    };
    let t = s.trim_matches(|c: char| c == ' ' || c == '\t' || c == '\r' || c == '\n');
    let (sign, digits) = if let Some(r) = t.strip_prefix('+') {
        (1, r)
    } else if let Some(r) = t.strip_prefix('-') {
        (-1, r)
    } else {
        (0, t)
    };
    if digits.is_empty() || !digits.bytes().all(|c| c.is_ascii_digit()) {
        return Num::No;
    }
    if t.len() == s.len() && sign == 0 {
        return Num::No; // would have been Strict
    }
    match (sign, digits.parse::<u64>()) {
        (-1, Ok(0)) => Num::Loose(Some(0)),
        (-1, _) => Num::Loose(None),
        (_, Ok(v)) => Num::Loose(Some(v)),
        (_, Err(_)) => Num::Loose(None),
    }
}

impl Model {
    pub fn new(evict: Evict, mem_limit: Option<u64>) -> Model {
        Model { now: 0, keys: BTreeMap::new(), evict, mem_limit, last_written: 0, item_limit: None }
    }

    pub fn key_info(&self, key: &[u8]) -> KeyInfo {
        self.keys.get(key).cloned().unwrap_or_default()
    }

    /// Turns items whose `upper` has passed into tombstones.
    pub fn settle(&mut self) {
        let now = self.now;
        for ki in self.keys.values_mut() {
            if let KeyState::Item(it) = &ki.st {
                if now >= it.upper {
                    let why = if now >= it.own_upper { TombWhy::Ttl } else { TombWhy::FlushDeadline };
                    let tok = it.tok;
                    push_stale(&mut ki.stale, tok, None);
                    ki.st = KeyState::Tomb(why);
                }
            }
        }
    }

    /// Resolves a relative CAS argument; None = not applicable in this state.
    pub fn resolve_cas(&self, key: &[u8], arg: CasArg) -> Option<u64> {
        let ki = self.key_info(key);
        let cur = match &ki.st {
            KeyState::Item(it) if self.now < it.upper => Some(it.tok),
            _ => None,
        };
        match arg {
            CasArg::Zero => Some(0),
            CasArg::Current => cur.or_else(|| ki.stale.first().copied()),
            CasArg::Stale1 => ki.stale.iter().copied().find(|t| Some(*t) != cur && *t != 0),
            CasArg::Stale2 => ki.stale.iter().copied().filter(|t| Some(*t) != cur && *t != 0).nth(1),
            CasArg::CurrentPlus1 => cur.map(|c| c.wrapping_add(1)).filter(|c| *c != 0),
            CasArg::Max => Some(u64::MAX),
            CasArg::Arb(x) => Some(x),
        }
    }

    /// Resolves a relative tick into seconds; None = not applicable.
    pub fn resolve_tick(&self, t: Tick) -> Option<u64> {
        match t {
            Tick::Plus(d) => Some(d),
            Tick::ToNextExpiry | Tick::BeforeNextExpiry => {
                let mut best: Option<u64> = None;
                for ki in self.keys.values() {
                    if let KeyState::Item(it) = &ki.st {
                        for x in [it.lower, it.upper, it.own_upper] {
                            if x != INF && x > self.now {
                                best = Some(best.map_or(x, |b| b.min(x)));
                            }
                        }
                    }
                }
                let b = best?;
                match t {
                    Tick::ToNextExpiry => Some(b - self.now),
                    _ => {
                        if b - 1 > self.now {
                            Some(b - 1 - self.now)
                        } else {
                            None
                        }
                    }
                }
            }
        }
    }

    /// Re-synchronises the model's view of `key` from the implementation's dump (after a
    /// discrepancy, so that exploration can continue behind it).
    pub fn resync_key(&mut self, key: &[u8], after: &[DumpItem]) {
        let now = self.now;
        let ki = self.keys.entry(key.to_vec()).or_default();
        let old_tok = match &ki.st {
            KeyState::Item(it) => Some(it.tok),
            _ => None,
        };
        match after.iter().find(|d| d.key == key) {
            Some(d) if d.expiry() > now => {
                let mut carried = match &ki.st {
                    KeyState::Item(it) => it.carried.clone(),
                    _ => BTreeSet::new(),
                };
                carried.insert(d.cas);
                let mut ttl_cands = BTreeSet::new();
                ttl_cands.insert(d.ttl);
                ki.st = KeyState::Item(Item {
                    value: d.value.clone(),
                    flags: d.flags,
                    tok: d.cas,
                    lower: d.expiry(),
                    upper: d.expiry(),
                    own_upper: d.expiry(),
                    ttl_cands,
                    stamp: d.ts,
                    carried,
                    exempt: true,
                });
                if let Some(t) = old_tok {
                    push_stale(&mut ki.stale, t, Some(d.cas));
                }
            }
            Some(_) => {
                ki.st = KeyState::Tomb(TombWhy::Ttl);
                if let Some(t) = old_tok {
                    push_stale(&mut ki.stale, t, None);
                }
            }
            None => {
                ki.st = KeyState::Absent(Gone::Resync);
                if let Some(t) = old_tok {
                    push_stale(&mut ki.stale, t, None);
                }
            }
        }
    }
}

pub fn push_stale(stale: &mut Vec<u64>, tok: u64, current: Option<u64>) {
    if tok == 0 || Some(tok) == current {
        return;
    }
    stale.retain(|t| *t != tok && Some(*t) != current);
    stale.insert(0, tok);
    stale.truncate(3);
}
