//! C19 product exploration: two systems A and B run the same command sequence; A always gets the
//! loud variant, B the loud or the quiet one (the toggle is part of the alphabet), so every history
//! up to the depth x every subset of positions switched to quiet is covered.

#![allow(dead_code)]

use crate::model::owners;
use crate::seq::{hist_text, Elem, Found, Hist, Runner, SeqCfg, SeqReport};
use crate::sut::DumpItem;
use crate::wire::{self, st};
use std::collections::{BTreeMap, HashSet};
use std::sync::atomic::{AtomicBool, AtomicU64, AtomicUsize, Ordering};
use std::sync::Mutex;
use std::time::Instant;

/// `cfg_b.alphabet` = loud commands followed by their quiet twins (same length n each; a command
/// without a twin is repeated).  History element cmd index < n: loud in B, >= n: quiet in B.
pub fn make_pair_cfg(loud: &SeqCfg) -> SeqCfg {
    let mut b = loud.clone();
    let n = loud.alphabet.len();
    for i in 0..n {
        let t = loud.alphabet[i].toggled().unwrap_or_else(|| loud.alphabet[i].clone());
        b.alphabet.push(t);
    }
    b.opaque_mod = n;
    b
}

fn cas_pattern(d: &[DumpItem]) -> Vec<(bool, bool)> {
    let mut v = vec![];
    for i in 0..d.len() {
        for j in 0..d.len() {
            v.push((d[i].cas == d[j].cas, d[i].cas < d[j].cas));
        }
    }
    v
}

/// Compares the two stores: same keys, values, flags, ttl, timestamps; CAS isomorphic.
fn compare_dumps(a: &[DumpItem], b: &[DumpItem]) -> Option<String> {
    if a.len() != b.len() {
        return Some(format!("A holds {} items, B {}", a.len(), b.len()));
    }
    for (x, y) in a.iter().zip(b.iter()) {
        if x.key != y.key || x.value != y.value || x.flags != y.flags || x.expiry() != y.expiry() {
            return Some(format!("item {} differs: loud {:?} / toggled {:?}", wire::show(&x.key), x, y));
        }
        if (x.cas == 0) != (y.cas == 0) {
            return Some(format!("item {}: CAS {} vs {}", wire::show(&x.key), x.cas, y.cas));
        }
    }
    if cas_pattern(a) != cas_pattern(b) {
        return Some("CAS relations between items differ".into());
    }
    None
}

pub fn explore_pair(loud: &SeqCfg, threads: usize) -> SeqReport {
    let t0 = Instant::now();
    let cfg_b = make_pair_cfg(loud);
    let n = loud.alphabet.len();
    let mut rep = SeqReport { cfg_name: loud.name.clone(), ..Default::default() };
    const SHARDS: usize = 64;
    let seen: Vec<Mutex<HashSet<(u128, u128)>>> = (0..SHARDS).map(|_| Mutex::new(HashSet::new())).collect();
    let insert = |fp: (u128, u128)| -> bool { seen[(fp.0 as usize) % SHARDS].lock().unwrap().insert(fp) };
    let transitions = AtomicU64::new(0);
    let executions = AtomicU64::new(0);
    let states = AtomicU64::new(1);
    let found: Mutex<BTreeMap<String, Found>> = Mutex::new(BTreeMap::new());
    let foreign: Mutex<BTreeMap<String, u64>> = Mutex::new(BTreeMap::new());
    let stop = AtomicBool::new(false);
    let mach: Mutex<Option<String>> = Mutex::new(None);
    let mut frontier: Vec<Hist> = vec![vec![]];
    rep.level_states.push(1);
    let mut depth = 0;
    let to_a = |h: &Hist| -> Hist { h.iter().map(|e| Elem { cmd: e.cmd % n as u16, choices: e.choices.clone() }).collect() };
    while !frontier.is_empty() && depth < loud.depth {
        let next: Mutex<Vec<Hist>> = Mutex::new(vec![]);
        let idx = AtomicUsize::new(0);
        let fr = &frontier;
        std::thread::scope(|s| {
            for _ in 0..threads.max(1) {
                s.spawn(|| {
                    crate::sut::set_quiet(true);
                    let mut local: Vec<Hist> = vec![];
                    loop {
                        if stop.load(Ordering::Relaxed) {
                            break;
                        }
                        let i = idx.fetch_add(1, Ordering::Relaxed);
                        if i >= fr.len() {
                            break;
                        }
                        let h = &fr[i];
                        crate::watchdog::working_on(format!("[{}] pair history [{}]", loud.name, hist_text(&cfg_b, h).join(" ; ")));
                        for ci in 0..2 * n {
                            crate::watchdog::beat();
                            if ci >= n && loud.alphabet[ci - n].toggled().is_none() {
                                continue;
                            }
                            let mut ra = Runner::new(loud);
                            let mut rb = Runner::new(&cfg_b);
                            if let Err(e) = ra.run_history(&to_a(h)).and_then(|_| rb.run_history(h)) {
                                *mach.lock().unwrap() = Some(e);
                                stop.store(true, Ordering::Relaxed);
                                break;
                            }
                            executions.fetch_add(2, Ordering::Relaxed);
                            let apa = ra.apply(ci % n, &[]);
                            let apb = rb.apply(ci, &[]);
                            if !apa.applicable || !apb.applicable {
                                continue;
                            }
                            transitions.fetch_add(1, Ordering::Relaxed);
                            let mut nh = h.clone();
                            nh.push(Elem { cmd: ci as u16, choices: vec![] });
                            let mut report = |clause: &'static str, detail: String| {
                                let sig = format!("{}|{}{}", clause, cfg_b.alphabet[ci].kind(), if ci >= n { "q" } else { "" });
                                let mut f = found.lock().unwrap();
                                let better = f.get(&sig).map(|o: &Found| nh.len() < o.hist.len()).unwrap_or(true);
                                if better {
                                    f.insert(
                                        sig.clone(),
                                        Found { clause, signature: sig, detail, hist_text: hist_text(&cfg_b, &nh), hist: nh.clone(), cfg_name: loud.name.clone() },
                                    );
                                }
                            };
                            // model violations on either side
                            for (side, ap) in [("loud", &apa), ("toggled", &apb)] {
                                for vl in &ap.viols {
                                    if owners(vl.clause).contains(&"C19") {
                                        report(vl.clause, format!("[{} run] {}", side, vl.detail));
                                    } else {
                                        let o = owners(vl.clause).first().copied().unwrap_or("?");
                                        *foreign.lock().unwrap().entry(format!("{}:{}", o, vl.clause)).or_insert(0) += 1;
                                    }
                                }
                            }
                            // effect equivalence
                            let da = ra.world.dump();
                            let db = rb.world.dump();
                            if let Some(d) = compare_dumps(&da, &db) {
                                report("effect-differs", d);
                            }
                            // response relation
                            let (ra_resp, _) = wire::split_responses(&apa.out_bytes);
                            let (rb_resp, _) = wire::split_responses(&apb.out_bytes);
                            let a0 = ra_resp.first();
                            let b0 = rb_resp.first();
                            if ci >= n {
                                let is_get = matches!(cfg_b.alphabet[ci], crate::cmd::Cmd::Get { .. });
                                match a0 {
                                    Some(a) if a.status != st::OK => {
                                        // errors identical apart from the opcode; a quiet get miss is silent
                                        let miss = is_get && a.status == st::NOT_FOUND;
                                        match (miss, b0) {
                                            (true, None) => {}
                                            (true, Some(b)) => report("quiet-silent", format!("quiet get miss answered {}", b.short())),
                                            (false, Some(b)) => {
                                                if b.status != a.status || b.body != a.body || b.opaque != a.opaque {
                                                    report("quiet-error-differs", format!("loud error {} / quiet error {}", a.short(), b.short()));
                                                }
                                            }
                                            (false, None) => report("quiet-error-loud", format!("loud variant failed with {} but the quiet variant was silent", a.short())),
                                        }
                                    }
                                    Some(a) => {
                                        if is_get {
                                            match b0 {
                                                Some(b) => {
                                                    if b.body != a.body || b.status != a.status || b.extras() != a.extras() {
                                                        report("quiet-hit-differs", format!("loud hit {} / quiet hit {}", a.short(), b.short()));
                                                    }
                                                }
                                                None => report("quiet-hit-loud", "quiet get hit was silent".into()),
                                            }
                                        } else if let Some(b) = b0 {
                                            report("quiet-silent", format!("successful quiet mutation answered {}", b.short()));
                                        }
                                    }
                                    None => {}
                                }
                            } else if apa.out_bytes != apb.out_bytes {
                                // same loud command on both sides: only CAS values may differ
                                let same = match (a0, b0) {
                                    (Some(a), Some(b)) => a.status == b.status && a.body == b.body && a.opcode == b.opcode,
                                    (None, None) => true,
                                    _ => false,
                                };
                                if !same {
                                    report("effect-differs", format!("same loud command answered differently: {:?} / {:?}", a0.map(|x| x.short()), b0.map(|x| x.short())));
                                }
                            }
                            if apa.pruned || apb.pruned {
                                continue;
                            }
                            if insert((ra.fingerprint(), rb.fingerprint())) {
                                states.fetch_add(1, Ordering::Relaxed);
                                local.push(nh);
                            }
                        }
                        if (i & 63) == 0 && (t0.elapsed().as_secs_f64() > loud.wall_cap_s || states.load(Ordering::Relaxed) as usize > loud.state_cap) {
                            stop.store(true, Ordering::Relaxed);
                        }
                    }
                    crate::watchdog::idle();
                    next.lock().unwrap().extend(local);
                });
            }
        });
        if let Some(e) = mach.lock().unwrap().clone() {
            rep.machinery_error = Some(e);
            break;
        }
        let mut nx = next.into_inner().unwrap();
        nx.sort();
        if stop.load(Ordering::Relaxed) {
            rep.capped = Some(format!("stopped inside depth {}; depths < {} fully explored", depth + 1, depth + 1));
            break;
        }
        depth += 1;
        rep.level_states.push(nx.len() as u64);
        if rep.samples.len() < 4 {
            if let Some(h) = nx.get(nx.len() / 2) {
                rep.samples.push(hist_text(&cfg_b, h));
            }
        }
        frontier = nx;
    }
    rep.depth_reached = depth;
    rep.frontier_emptied = frontier.is_empty() && rep.capped.is_none();
    rep.states = states.load(Ordering::Relaxed);
    rep.transitions = transitions.load(Ordering::Relaxed);
    rep.executions = executions.load(Ordering::Relaxed);
    rep.found = found.into_inner().unwrap().into_values().collect();
    rep.foreign = foreign.into_inner().unwrap();
    rep.wall_s = t0.elapsed().as_secs_f64();
    rep
}

/// Differential exploration of two configurations with the same alphabet (C20: eviction policy
/// none vs random with an unreachable limit): every history up to the depth is applied to both;
/// responses must be byte-identical and the stores equal after every command.
pub fn explore_diff(a: &SeqCfg, b: &SeqCfg, threads: usize) -> SeqReport {
    let t0 = Instant::now();
    let n = a.alphabet.len();
    let mut rep = SeqReport { cfg_name: format!("{} vs {}", a.name, b.name), ..Default::default() };
    const SHARDS: usize = 64;
    let seen: Vec<Mutex<HashSet<(u128, u128)>>> = (0..SHARDS).map(|_| Mutex::new(HashSet::new())).collect();
    let insert = |fp: (u128, u128)| -> bool { seen[(fp.0 as usize) % SHARDS].lock().unwrap().insert(fp) };
    let transitions = AtomicU64::new(0);
    let executions = AtomicU64::new(0);
    let states = AtomicU64::new(1);
    let found: Mutex<BTreeMap<String, Found>> = Mutex::new(BTreeMap::new());
    let stop = AtomicBool::new(false);
    let mach: Mutex<Option<String>> = Mutex::new(None);
    let mut frontier: Vec<Hist> = vec![vec![]];
    rep.level_states.push(1);
    let mut depth = 0;
    while !frontier.is_empty() && depth < a.depth {
        let next: Mutex<Vec<Hist>> = Mutex::new(vec![]);
        let idx = AtomicUsize::new(0);
        let fr = &frontier;
        std::thread::scope(|s| {
            for _ in 0..threads.max(1) {
                s.spawn(|| {
                    crate::sut::set_quiet(true);
                    let mut local: Vec<Hist> = vec![];
                    loop {
                        if stop.load(Ordering::Relaxed) {
                            break;
                        }
                        let i = idx.fetch_add(1, Ordering::Relaxed);
                        if i >= fr.len() {
                            break;
                        }
                        let h = &fr[i];
                        crate::watchdog::working_on(format!("[{}] differential history [{}]", a.name, hist_text(a, h).join(" ; ")));
                        for ci in 0..n {
                            crate::watchdog::beat();
                            let mut ra = Runner::new(a);
                            let mut rb = Runner::new(b);
                            if let Err(e) = ra.run_history(h).and_then(|_| rb.run_history(h)) {
                                *mach.lock().unwrap() = Some(e);
                                stop.store(true, Ordering::Relaxed);
                                break;
                            }
                            executions.fetch_add(2, Ordering::Relaxed);
                            let apa = ra.apply(ci, &[]);
                            let apb = rb.apply(ci, &[]);
                            if !apa.applicable || !apb.applicable {
                                continue;
                            }
                            transitions.fetch_add(1, Ordering::Relaxed);
                            let mut nh = h.clone();
                            nh.push(Elem { cmd: ci as u16, choices: vec![] });
                            let da = ra.world.dump();
                            let db = rb.world.dump();
                            // two runs that differ only in the opaques sent: compare modulo the echoed opaque
                            let mask = a.opaques != b.opaques;
                            let strip = |bytes: &[u8]| -> Vec<(u8, u16, u64, Vec<u8>)> {
                                wire::split_responses(bytes).0.into_iter().map(|r| (r.opcode, r.status, r.cas, r.body)).collect()
                            };
                            let same_out = if mask { strip(&apa.out_bytes) == strip(&apb.out_bytes) } else { apa.out_bytes == apb.out_bytes };
                            let differs = if !same_out {
                                let (x, _) = wire::split_responses(&apa.out_bytes);
                                let (y, _) = wire::split_responses(&apb.out_bytes);
                                Some(format!(
                                    "responses differ: {:?} / {:?}",
                                    x.iter().map(|r| r.short()).collect::<Vec<_>>(),
                                    y.iter().map(|r| r.short()).collect::<Vec<_>>()
                                ))
                            } else if da != db {
                                let first = da.iter().zip(db.iter()).find(|(x, y)| x != y);
                                Some(match first {
                                    Some((x, y)) => format!("stores differ: {:?} / {:?}", x, y),
                                    None => format!("stores differ: {} items / {} items", da.len(), db.len()),
                                })
                            } else {
                                None
                            };
                            if let Some(d) = differs {
                                let sig = format!("config-differs|{}", a.alphabet[ci].kind());
                                let mut f = found.lock().unwrap();
                                let better = f.get(&sig).map(|o: &Found| nh.len() < o.hist.len()).unwrap_or(true);
                                if better {
                                    f.insert(
                                        sig.clone(),
                                        Found { clause: "config-differs", signature: sig, detail: d, hist_text: hist_text(a, &nh), hist: nh.clone(), cfg_name: rep_name(a, b) },
                                    );
                                }
                                continue;
                            }
                            if apa.pruned || apb.pruned {
                                continue;
                            }
                            if insert((ra.fingerprint(), rb.fingerprint())) {
                                states.fetch_add(1, Ordering::Relaxed);
                                local.push(nh);
                            }
                        }
                        if (i & 63) == 0 && (t0.elapsed().as_secs_f64() > a.wall_cap_s || states.load(Ordering::Relaxed) as usize > a.state_cap) {
                            stop.store(true, Ordering::Relaxed);
                        }
                    }
                    crate::watchdog::idle();
                    next.lock().unwrap().extend(local);
                });
            }
        });
        if let Some(e) = mach.lock().unwrap().clone() {
            rep.machinery_error = Some(e);
            break;
        }
        let mut nx = next.into_inner().unwrap();
        nx.sort();
        if stop.load(Ordering::Relaxed) {
            rep.capped = Some(format!("stopped inside depth {}; depths < {} fully explored", depth + 1, depth + 1));
            break;
        }
        depth += 1;
        rep.level_states.push(nx.len() as u64);
        if rep.samples.len() < 3 {
            if let Some(h) = nx.get(nx.len() / 2) {
                rep.samples.push(hist_text(a, h));
            }
        }
        frontier = nx;
    }
    rep.depth_reached = depth;
    rep.frontier_emptied = frontier.is_empty() && rep.capped.is_none();
    rep.states = states.load(Ordering::Relaxed);
    rep.transitions = transitions.load(Ordering::Relaxed);
    rep.executions = executions.load(Ordering::Relaxed);
    rep.found = found.into_inner().unwrap().into_values().collect();
    rep.wall_s = t0.elapsed().as_secs_f64();
    rep
}

fn rep_name(a: &SeqCfg, b: &SeqCfg) -> String {
    format!("{} vs {}", a.name, b.name)
}

/// C19 over the wire: every toggled history up to `depth`, each clock-free segment sent as ONE
/// write to a real server (so the requests of a segment are pipelined in the server's read
/// buffer); the bytes received and the store reached must equal the in-process run of the same
/// toggled history (which `explore_pair` compares with the all-loud run).
pub fn bind_pipelined(loud: &SeqCfg, depth: usize, threads: usize) -> (u64, Vec<(String, String)>, Option<String>) {
    use crate::net::{NetCfg, NetWorld};
    let cfg_b = make_pair_cfg(loud);
    let n = loud.alphabet.len();
    // all index tuples of length 1..=depth over the 2n commands (a command without twin only once)
    let usable: Vec<u16> = (0..2 * n).filter(|ci| *ci < n || loud.alphabet[*ci - n].toggled().is_some()).map(|c| c as u16).collect();
    let mut tuples: Vec<Vec<u16>> = vec![];
    let mut level: Vec<Vec<u16>> = vec![vec![]];
    for _ in 0..depth {
        let mut next = vec![];
        for h in &level {
            for c in &usable {
                let mut h2 = h.clone();
                h2.push(*c);
                next.push(h2);
            }
        }
        tuples.extend(next.iter().cloned());
        level = next;
    }
    // one level deeper around every request that exceeds the item limit: what precedes and what
    // follows an oversized request in the same segment
    let big: Vec<u16> = usable
        .iter()
        .copied()
        .filter(|c| matches!(&cfg_b.alphabet[*c as usize], crate::cmd::Cmd::Store { value, .. } if value.len() as u32 + 16 > cfg_b.sut.item_limit))
        .collect();
    if depth < 3 {
        for a in &usable {
            for m in &big {
                for z in &usable {
                    tuples.push(vec![*a, *m, *z]);
                }
            }
        }
    }
    enum Step {
        Tick(u64),
        Req(Vec<u8>, Vec<u8>),
    }
    let results = crate::check_c09::par_map(&tuples, threads, |_, t| -> Result<Option<(String, String)>, String> {
        // in-process run of the toggled history
        let mut rb = Runner::new(&cfg_b);
        let mut steps: Vec<Step> = vec![];
        for ci in t {
            let ap = rb.apply(*ci as usize, &[]);
            if !ap.applicable || ap.pruned {
                return Ok(None);
            }
            match ap.tick_secs {
                Some(d) => steps.push(Step::Tick(d)),
                None => steps.push(Step::Req(ap.req_bytes, ap.out_bytes)),
            }
        }
        let exp_dump = rb.world.dump();
        let h: Hist = t.iter().map(|c| Elem { cmd: *c, choices: vec![] }).collect();
        let kinds: Vec<String> = t.iter().map(|ci| cfg_b.alphabet[*ci as usize].kind().to_string()).collect();
        // mode 0: every clock-free segment is one write; mode 1: one request at a time with 45 s of
        // (virtual) idle time in front of each - below the receive timeout, which every frame re-arms
        for mode in 0..2 {
            let w = NetWorld::new(NetCfg { item_limit: cfg_b.sut.item_limit, policy: cfg_b.sut.policy, ..Default::default() })?;
            w.clock.set(cfg_b.start_time);
            let mut c = w.connect()?;
            let mut i = 0;
            while i < steps.len() {
                let (req, exp): (Vec<u8>, Vec<u8>) = match &steps[i] {
                    Step::Tick(d) => {
                        w.clock.advance(*d);
                        i += 1;
                        continue;
                    }
                    Step::Req(r, e) => {
                        let (mut req, mut exp) = (r.clone(), e.clone());
                        i += 1;
                        if mode == 0 {
                            while let Some(Step::Req(r2, e2)) = steps.get(i) {
                                req.extend_from_slice(r2);
                                exp.extend_from_slice(e2);
                                i += 1;
                            }
                        } else {
                            w.advance(45);
                        }
                        (req, exp)
                    }
                };
                let before = c.got.len();
                let sent = c.step(&w, &req);
                let got = &c.got[before..];
                if sent.is_err() || got != &exp[..] {
                    let (a, _) = wire::split_responses(&exp);
                    let (b, _) = wire::split_responses(got);
                    return Ok(Some((
                        format!("{}|{}", if mode == 0 { "pipelined-over-tcp-differs" } else { "paced-over-tcp-differs" }, kinds.join(",")),
                        format!(
                            "[{}] sent {}: in-process {:?} / over TCP {:?}{}",
                            hist_text(&cfg_b, &h).join(" ; "),
                            if mode == 0 { "as one pipelined write" } else { "one request at a time, 45 s apart" },
                            a.iter().map(|x| x.short()).collect::<Vec<_>>(),
                            b.iter().map(|x| x.short()).collect::<Vec<_>>(),
                            if sent.is_err() || c.eof { " (connection lost)" } else { "" }
                        ),
                    )));
                }
            }
            let dump = w.dump();
            if let Some(d) = compare_dumps(&exp_dump, &dump) {
                return Ok(Some((
                    if mode == 0 { "pipelined-over-tcp-effect".into() } else { "paced-over-tcp-effect".into() },
                    format!("[{}] over TCP: store differs from the in-process run: {}", hist_text(&cfg_b, &h).join(" ; "), d),
                )));
            }
        }
        Ok(None)
    });
    let mut nrun = 0u64;
    let mut bad: Vec<(String, String)> = vec![];
    let mut mach = None;
    for r in results {
        match r {
            Ok(None) => nrun += 1,
            Ok(Some(x)) => {
                nrun += 1;
                if !bad.iter().any(|b| b.0 == x.0) && bad.len() < 40 {
                    bad.push(x);
                }
            }
            Err(e) => mach = Some(e),
        }
    }
    (nrun, bad, mach)
}
