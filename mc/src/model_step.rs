//! RefModel transition function (DESIGN.md Appendix A, rule by rule).

#![allow(dead_code)]

use crate::cmd::{CasArg, Cmd, StoreKind};
use crate::model::*;
use crate::sut::DumpItem;
use crate::wire::{self, st, Resp};
use std::collections::BTreeSet;

pub struct StepCtx<'a> {
    pub cmd: &'a Cmd,
    /// resolved CAS value sent
    pub cas: u64,
    pub opaque: u32,
    pub obs: &'a Observed,
    pub before: &'a [DumpItem],
    pub after: &'a [DumpItem],
    /// the eviction loop ran inside this command (victim choices were taken)
    pub evicting: bool,
}

fn entry<'a>(d: &'a [DumpItem], key: &[u8]) -> Option<&'a DumpItem> {
    d.iter().find(|x| x.key == key)
}

/// "byte-for-byte unchanged (value, flags, CAS)" as C02/C06 put it
fn same_entry(a: Option<&DumpItem>, b: Option<&DumpItem>) -> bool {
    match (a, b) {
        (None, None) => true,
        (Some(x), Some(y)) => x.value == y.value && x.flags == y.flags && x.cas == y.cas,
        _ => false,
    }
}

fn same_expiry(a: Option<&DumpItem>, b: Option<&DumpItem>) -> bool {
    match (a, b) {
        (Some(x), Some(y)) => x.expiry() == y.expiry(),
        _ => true,
    }
}

fn v(clause: &'static str, detail: String) -> Viol {
    Viol { clause, detail, tag: String::new() }
}

fn gone_clause(st: &KeyState) -> &'static str {
    match st {
        KeyState::Tomb(TombWhy::Ttl) => "must-miss-ttl",
        KeyState::Tomb(TombWhy::FlushDeadline) => "flush-deadline",
        KeyState::Tomb(TombWhy::Sticky) => "resurrected",
        KeyState::Absent(Gone::Deleted) => "removed-visible",
        KeyState::Absent(Gone::Flushed) => "flush-immediate",
        _ => "phantom-item",
    }
}

/// A presence-dependent command treated a dead record as present.  Dead by its own TTL is C05's
/// matter, dead by a delayed flush's deadline is C08's; and the command family's own property
/// (C06 for add/replace/append/prepend, C07 for incr/decr) quantifies over expired and flushed keys too.
fn tomb_visible_clause(st: &KeyState, counter: bool) -> &'static str {
    match (st, counter) {
        (KeyState::Tomb(TombWhy::FlushDeadline), false) => "flush-deadline-cond",
        (KeyState::Tomb(TombWhy::FlushDeadline), true) => "flush-deadline-counter",
        (_, false) => "expired-visible-cond",
        (_, true) => "expired-visible-counter",
    }
}

struct Eval {
    ki: KeyInfo,
    viol: Vec<Viol>,
    /// size of the record written by this command (successful store-like command)
    wrote: bool,
}

impl Model {
    pub fn step(&mut self, c: &StepCtx) -> Vec<Viol> {
        let mut out: Vec<Viol> = vec![];
        if let Cmd::Tick(t) = c.cmd {
            if let Some(d) = self.resolve_tick(*t) {
                self.now += d;
            }
            self.settle();
            return out;
        }
        self.settle();
        if let Some(p) = &c.obs.panic {
            out.push(v("no-panic", format!("{} panicked: {}", c.cmd.short(), p)));
            if let Cmd::Delta { .. } = c.cmd {
                out.push(v("counter-must-succeed", format!("{} gave no result: panicked: {}", c.cmd.short(), p)));
            }
            self.resync_all(c.after);
            return out;
        }
        if let Some(e) = &c.obs.decode_err {
            out.push(v("decode-error-on-valid", format!("{}: decoder error {}", c.cmd.short(), e)));
            self.resync_all(c.after);
            return out;
        }
        // ---- frame level (C11) ----
        if c.obs.residue > 0 {
            out.push(v("frame-residue", format!("{} bytes after the last complete response frame", c.obs.residue)));
        }
        if c.obs.resps.len() > 1 {
            out.push(v("one-response", format!("{} responses to one request", c.obs.resps.len())));
        }
        let key_bytes: Vec<u8> = c.cmd.key().map(|k| k.to_vec()).unwrap_or_default();
        for r in &c.obs.resps {
            if let Err(e) = wire::check_frame(c.cmd.opcode(), c.opaque, &key_bytes, r) {
                out.push(v("frame", format!("{}: {} [{}]", c.cmd.short(), e, r.short())));
            }
        }
        let r = c.obs.resps.first();

        // a request whose body exceeds the item size limit: 0x03, loud, nothing changed
        if let Some(limit) = self.item_limit {
            let body = match c.cmd {
                Cmd::Store { key, value, .. } => 8 + key.len() + value.len(),
                Cmd::Concat { key, value, .. } => key.len() + value.len(),
                _ => 0,
            };
            if body > limit as usize {
                match r {
                    Some(x) if x.status == st::TOO_LARGE => {}
                    other => out.push(v(
                        "too-large",
                        format!("{} with a {}-byte body (limit {}) answered {:?}, expected 0x03", c.cmd.short(), body, limit, other.map(|x| x.short())),
                    )),
                }
                if c.before != c.after {
                    out.push(v("too-large", format!("{} (over the limit) changed the store", c.cmd.short())));
                    // a request refused for its size is a rejected command like any other: the item
                    // it names stays byte-for-byte what it was (C06 for the conditional stores, C02
                    // for everything that carried a CAS)
                    if matches!(c.cmd, Cmd::Store { kind: StoreKind::Add | StoreKind::Replace, .. } | Cmd::Concat { .. }) {
                        out.push(v("too-large-modified-cond", format!("{} was refused (over the item size limit) and the stored item changed all the same", c.cmd.short())));
                    }
                    if !matches!(c.cmd.cas_arg(), None | Some(CasArg::Zero)) {
                        out.push(v("too-large-modified-cas", format!("{} carried a CAS, was refused (over the item size limit) and the stored item changed all the same", c.cmd.short())));
                    }
                    self.resync_all(c.after);
                }
                return out;
            }
        }

        match c.cmd {
            Cmd::Noop | Cmd::Version | Cmd::Stat => {
                match r {
                    None => out.push(v("one-response", format!("{} not answered", c.cmd.short()))),
                    Some(r) => {
                        if r.status != st::OK {
                            out.push(v("frame", format!("{} answered status {:#x}", c.cmd.short(), r.status)));
                        }
                        if matches!(c.cmd, Cmd::Version) && r.body.is_empty() {
                            out.push(v("frame", "version answered with an empty body".into()));
                        }
                    }
                }
                self.check_untouched(None, c, &mut out, false);
            }
            Cmd::Flush { delay, quiet } => {
                let n = delay.unwrap_or(0);
                match (r, quiet) {
                    (None, false) => out.push(v("one-response", "flush not answered".into())),
                    (Some(r), false) => {
                        if r.status != st::OK {
                            out.push(v("flush-status", format!("flush answered {:#x}", r.status)));
                        }
                    }
                    (Some(r), true) => {
                        if r.status == st::OK {
                            out.push(v("quiet-silent", "flushq answered on success".into()));
                        } else {
                            out.push(v("flush-status", format!("flushq answered {:#x}", r.status)));
                        }
                    }
                    (None, true) => {}
                }
                if n == 0 {
                    for ki in self.keys.values_mut() {
                        if let KeyState::Item(it) = &ki.st {
                            let t = it.tok;
                            push_stale(&mut ki.stale, t, None);
                        }
                        ki.st = KeyState::Absent(Gone::Flushed);
                    }
                    if !c.after.is_empty() {
                        out.push(v(
                            "flush-immediate",
                            format!("{} records left after an immediate flush", c.after.len()),
                        ));
                        self.resync_all(c.after);
                    }
                } else {
                    let f = self.now;
                    let dl = f + n as u64;
                    for ki in self.keys.values_mut() {
                        if let KeyState::Item(it) = &mut ki.st {
                            it.upper = it.upper.min(dl);
                            it.lower = it.lower.min(f);
                            it.ttl_cands.insert(n);
                            if dl >= it.stamp && dl - it.stamp <= u32::MAX as u64 {
                                it.ttl_cands.insert((dl - it.stamp) as u32);
                            }
                        }
                    }
                    // a delayed flush changes nothing but expiry
                    for b in c.before {
                        match entry(c.after, &b.key) {
                            Some(a) if a.value == b.value && a.flags == b.flags && a.cas == b.cas => {}
                            Some(a) => out.push(v(
                                "other-key-changed",
                                format!("delayed flush changed {}: {:?} -> {:?}", wire::show(&b.key), b, a),
                            )),
                            None => {
                                // removing an item at once is within "at the latest"
                            }
                        }
                    }
                    for a in c.after {
                        if entry(c.before, &a.key).is_none() {
                            out.push(v("phantom-item", format!("flush created {}", wire::show(&a.key))));
                        }
                    }
                    // items the flush removed at once
                    let gone: Vec<Vec<u8>> = c
                        .before
                        .iter()
                        .filter(|b| entry(c.after, &b.key).is_none())
                        .map(|b| b.key.clone())
                        .collect();
                    for k in gone {
                        let ki = self.keys.entry(k).or_default();
                        if let KeyState::Item(it) = &ki.st {
                            let t = it.tok;
                            push_stale(&mut ki.stale, t, None);
                            ki.st = KeyState::Tomb(TombWhy::Sticky);
                        }
                    }
                }
                self.check_expiry_bounds(c.after, &mut out);
            }
            Cmd::Tick(_) => unreachable!(),
            _ => {
                // keyed commands
                let key = key_bytes.clone();
                let ki = self.key_info(&key);
                let ev = match &ki.st {
                    KeyState::Item(it) if self.now < it.lower => {
                        let e1 = self.eval_keyed(&ki, Some(it), c, r);
                        // the policy evicts before it stores: when the loop ran, the addressed key's own old
                        // record may have been the victim, and the command then met an absent key
                        let storeish = matches!(c.cmd, Cmd::Store { .. } | Cmd::Concat { .. } | Cmd::Delta { .. });
                        if !e1.viol.is_empty() && c.evicting && storeish && self.evict != Evict::Off {
                            let mut k2 = ki.clone();
                            push_stale(&mut k2.stale, it.tok, None);
                            k2.st = KeyState::Absent(Gone::Evicted);
                            let e2 = self.eval_keyed(&k2, None, c, r);
                            if e2.viol.is_empty() {
                                e2
                            } else {
                                e1
                            }
                        } else {
                            e1
                        }
                    }
                    KeyState::Item(it) => {
                        let e1 = self.eval_keyed(&ki, Some(it), c, r);
                        if e1.viol.is_empty() {
                            e1
                        } else {
                            let why = if self.now >= it.lower && it.upper < it.own_upper && self.now < it.own_upper {
                                TombWhy::Sticky
                            } else {
                                TombWhy::Sticky
                            };
                            let mut k2 = ki.clone();
                            push_stale(&mut k2.stale, it.tok, None);
                            k2.st = KeyState::Tomb(why);
                            let e2 = self.eval_keyed(&k2, None, c, r);
                            if e2.viol.is_empty() {
                                e2
                            } else {
                                e1
                            }
                        }
                    }
                    _ => self.eval_keyed(&ki, None, c, r),
                };
                let mut ev = ev;
                // a CAS-carrying store during which the eviction loop ran may have met its own key
                // just evicted: the lifetime it begins is then one begun by a CAS store on an absent
                // key, which the uniqueness claim excludes (the two cases look the same from outside)
                if c.evicting && c.cas != 0 && self.evict != Evict::Off {
                    if let KeyState::Item(it) = &mut ev.ki.st {
                        it.exempt = true;
                    }
                }
                let bad = !ev.viol.is_empty();
                out.extend(ev.viol);
                self.keys.insert(key.clone(), ev.ki);
                // the expiry the store recorded is judged against the model's expectation before any
                // re-synchronisation adopts it (a command can be wrong in several respects at once)
                self.check_expiry_bounds(c.after, &mut out);
                if bad {
                    self.resync_key(&key, c.after);
                } else {
                    self.check_addressed(&key, c, &mut out);
                }
                if ev.wrote {
                    if let Some(e) = entry(c.after, &key) {
                        self.last_written = e.size();
                    }
                }
                let storeish = matches!(c.cmd, Cmd::Store { .. } | Cmd::Concat { .. } | Cmd::Delta { .. });
                self.check_untouched(Some(&key), c, &mut out, storeish);
            }
        }
        // C14 bound at rest
        if let (Evict::Tight, Some(l)) = (self.evict, self.mem_limit) {
            let sum: u64 = c.after.iter().map(|d| d.size()).sum();
            if sum > l.saturating_add(self.last_written) {
                out.push(v(
                    "over-limit",
                    format!(
                        "stored records total {} bytes > limit {} + last written record {}",
                        sum, l, self.last_written
                    ),
                ));
            }
        }
        out
    }

    pub fn resync_all(&mut self, after: &[DumpItem]) {
        let mut keys: BTreeSet<Vec<u8>> = self.keys.keys().cloned().collect();
        for d in after {
            keys.insert(d.key.clone());
        }
        for k in keys {
            self.resync_key(&k, after);
        }
    }

    /// Entries of keys the command did not address must be unchanged.
    fn check_untouched(&mut self, addressed: Option<&[u8]>, c: &StepCtx, out: &mut Vec<Viol>, storeish: bool) {
        let mut keys: BTreeSet<&[u8]> = BTreeSet::new();
        for d in c.before {
            keys.insert(&d.key);
        }
        for d in c.after {
            keys.insert(&d.key);
        }
        let mut lost: Vec<Vec<u8>> = vec![];
        let mut changed: Vec<Vec<u8>> = vec![];
        for k in keys {
            if Some(k) == addressed {
                continue;
            }
            let b = entry(c.before, k);
            let a = entry(c.after, k);
            if b.is_some() && a.is_none() && storeish && self.evict != Evict::Off {
                lost.push(k.to_vec());
                continue;
            }
            let identical = match (b, a) {
                (None, None) => true,
                (Some(x), Some(y)) => x == y,
                _ => false,
            };
            if !identical {
                out.push(v(
                    "other-key-changed",
                    format!("{} changed the entry of {}: {:?} -> {:?}", c.cmd.short(), wire::show(k), b, a),
                ));
                changed.push(k.to_vec());
            }
        }
        // is there real memory pressure? (records stored before + the record being written > limit)
        let pressure = match self.mem_limit {
            Some(l) => {
                let before: u64 = c.before.iter().map(|d| d.size()).sum();
                let written = addressed.and_then(|k| entry(c.after, k)).map(|d| d.size()).unwrap_or(0);
                before + written > l
            }
            None => false,
        };
        for k in lost {
            let live = matches!(&self.key_info(&k).st, KeyState::Item(it) if self.now < it.upper);
            if self.evict == Evict::Generous && live && !pressure {
                out.push(v(
                    "live-item-lost",
                    format!("{} evicted live item {} although the limit is far away", c.cmd.short(), wire::show(&k)),
                ));
            }
            let ki = self.keys.entry(k).or_default();
            if let KeyState::Item(it) = &ki.st {
                let t = it.tok;
                push_stale(&mut ki.stale, t, None);
            }
            ki.st = KeyState::Absent(Gone::Evicted);
        }
        for k in changed {
            self.resync_key(&k, c.after);
        }
    }

    /// The addressed key's entry must agree with the model state reached.
    fn check_addressed(&mut self, key: &[u8], c: &StepCtx, out: &mut Vec<Viol>) {
        let a = entry(c.after, key);
        let ki = self.key_info(key);
        match &ki.st {
            KeyState::Item(it) => match a {
                Some(d) => {
                    if d.value != it.value || d.flags != it.flags || d.cas != it.tok {
                        out.push(v(
                            "stored-exactly",
                            format!(
                                "after {} the store holds value {} flags {:#x} cas {}, expected value {} flags {:#x} cas {}",
                                c.cmd.short(),
                                wire::show(&d.value),
                                d.flags,
                                d.cas,
                                wire::show(&it.value),
                                it.flags,
                                it.tok
                            ),
                        ));
                        self.resync_key(key, c.after);
                    }
                }
                None => {
                    if self.now < it.lower {
                        let clause = if self.evict == Evict::Off { "must-hit" } else { "own-record-evicted" };
                        out.push(v(clause, format!("after {} the store has no entry for {}", c.cmd.short(), wire::show(key))));
                        self.resync_key(key, c.after);
                    } else {
                        // may window: the implementation dropped it
                        let mut k2 = ki.clone();
                        push_stale(&mut k2.stale, it.tok, None);
                        k2.st = KeyState::Tomb(TombWhy::Sticky);
                        self.keys.insert(key.to_vec(), k2);
                    }
                }
            },
            KeyState::Absent(g) => {
                if let Some(d) = a {
                    let clause = match g {
                        Gone::Deleted => "delete-not-removed",
                        Gone::Flushed => "flush-immediate",
                        _ => "nothing-stored",
                    };
                    out.push(v(
                        clause,
                        format!("after {} the store holds an entry for absent key {}: {:?}", c.cmd.short(), wire::show(key), d),
                    ));
                    self.resync_key(key, c.after);
                }
            }
            KeyState::Tomb(_) => {}
        }
    }

    /// Dump-level expiry check: the instant at which the implementation will stop returning an
    /// item must lie within the model's [lower, upper].
    fn check_expiry_bounds(&mut self, after: &[DumpItem], out: &mut Vec<Viol>) {
        let mut bad: Vec<Vec<u8>> = vec![];
        for d in after {
            if let Some(KeyInfo { st: KeyState::Item(it), .. }) = self.keys.get(&d.key) {
                let e = d.expiry();
                if e > it.upper {
                    // the bound comes from a delayed flush's deadline, or from the item's own TTL
                    let clause = if it.upper < it.own_upper { "flush-deadline" } else { "expiry-prolonged" };
                    out.push(v(
                        clause,
                        format!(
                            "{} will be returned until t={} but must miss from t={} (now {})",
                            wire::show(&d.key),
                            if e == INF { "forever".to_string() } else { e.to_string() },
                            it.upper,
                            self.now
                        ),
                    ));
                    bad.push(d.key.clone());
                } else if e.max(self.now) < it.lower {
                    out.push(v(
                        "expiry-shortened",
                        format!(
                            "{} will expire at t={} but must be retrievable before t={} (now {})",
                            wire::show(&d.key),
                            e,
                            if it.lower == INF { "forever".to_string() } else { it.lower.to_string() },
                            self.now
                        ),
                    ));
                    bad.push(d.key.clone());
                }
            }
        }
        for k in bad {
            self.resync_key(&k, after);
        }
    }

    fn eval_keyed(&self, ki: &KeyInfo, present: Option<&Item>, c: &StepCtx, r: Option<&Resp>) -> Eval {
        let mut ev = Eval { ki: ki.clone(), viol: vec![], wrote: false };
        let key = c.cmd.key().unwrap().to_vec();
        let quiet = c.cmd.is_quiet();
        let status = r.map(|x| x.status);
        let before_e = entry(c.before, &key);
        let after_e = entry(c.after, &key);
        let unchanged = same_entry(before_e, after_e);
        let name = c.cmd.short();
        let now = self.now;

        // success as seen by the client: loud = status 0, quiet mutation = silence
        let is_get = matches!(c.cmd, Cmd::Get { .. });
        let success = match (quiet, status) {
            (_, Some(s)) => s == st::OK,
            (true, None) => !is_get,
            (false, None) => false,
        };
        if !quiet && r.is_none() {
            ev.viol.push(v("one-response", format!("{} not answered", name)));
            return ev;
        }
        if quiet && !is_get && status == Some(st::OK) {
            ev.viol.push(v("quiet-silent", format!("{} answered on success", name)));
        }

        // token bookkeeping for a successful mutation
        let new_token = |ev: &mut Eval, carried: &BTreeSet<u64>, exempt: bool| -> u64 {
            let from_resp = r.filter(|x| x.status == st::OK).map(|x| x.cas);
            let from_dump = after_e.map(|d| d.cas);
            let t = from_resp.or(from_dump).unwrap_or(0);
            if t == 0 {
                ev.viol.push(v("token-zero", format!("{} acknowledged with CAS 0", name)));
            }
            if let (Some(a), Some(b)) = (from_resp, from_dump) {
                if a != b {
                    ev.viol.push(v(
                        "token-ack",
                        format!("{} acknowledged CAS {} but the item now carries {}", name, a, b),
                    ));
                }
            }
            // C02's last sentence: a client that read (value, cas) never overwrites a change it has
            // not seen - so a generator-issued token never comes back for the same key, not even in
            // a later lifetime (after a delete, an expiry, a flush)
            // (a CAS-carrying store during which the eviction loop ran may have met its own key
            // evicted: the version it gets is then client-derived - outside the claim, not recorded)
            if !exempt && t != 0 && !(c.evicting && c.cas != 0) {
                if !carried.contains(&t) && ev.ki.issued.contains(&t) {
                    ev.viol.push(v(
                        "token-reissued",
                        format!("{} gave the item CAS {} which an earlier version of this key (in an earlier lifetime) already carried", name, t),
                    ));
                }
                ev.ki.issued.insert(t);
            }
            if !exempt && carried.contains(&t) {
                ev.viol.push(v(
                    "token-reused",
                    format!(
                        "{} gave the item CAS {} which it already carried in this lifetime (carried {:?})",
                        name, t, carried
                    ),
                ));
            }
            t
        };

        match c.cmd {
            Cmd::Get { .. } => match present {
                Some(it) => match status {
                    Some(st::OK) => {
                        let r = r.unwrap();
                        if r.value() != &it.value[..] {
                            ev.viol.push(v(
                                "value-exact",
                                format!("{} returned {} expected {}", name, wire::show(r.value()), wire::show(&it.value)),
                            ));
                        }
                        let fl = r.extras();
                        if fl.len() == 4 && u32::from_be_bytes([fl[0], fl[1], fl[2], fl[3]]) != it.flags {
                            ev.viol.push(v(
                                "flags-exact",
                                format!("{} returned flags {} expected {:#x}", name, wire::hex(fl), it.flags),
                            ));
                        }
                        if r.cas == 0 {
                            ev.viol.push(v("cas-nonzero", format!("{} returned CAS 0", name)));
                        } else if r.cas != it.tok {
                            ev.viol.push(v(
                                "cas-reported",
                                format!("{} reports CAS {} but the last mutation acknowledged {}", name, r.cas, it.tok),
                            ));
                        }
                    }
                    Some(s) => ev.viol.push(v("must-hit", format!("{} answered {:#x} for a live item", name, s))),
                    None => ev.viol.push(v("must-hit", format!("{} silent for a live item", name))),
                },
                None => match status {
                    Some(st::OK) => ev.viol.push(v(
                        gone_clause(&ki.st),
                        format!("{} returned {} for a key in state {:?}", name, wire::show(r.unwrap().value()), ki.st),
                    )),
                    Some(st::NOT_FOUND) => {
                        if quiet {
                            ev.viol.push(v("quiet-silent", format!("{} answered a miss", name)));
                        }
                    }
                    Some(s) => ev.viol.push(v("phantom-item", format!("{} answered {:#x} for an absent key", name, s))),
                    None => {}
                },
            },

            Cmd::Store { kind, value, flags, ttl, .. } => {
                // an acknowledged store must have stored exactly what was sent
                if success {
                    let stored_ok = matches!(after_e, Some(d) if d.value == *value && d.flags == *flags && d.expiry() == t_inf(now, *ttl));
                    if !stored_ok {
                        // an item stored while a delayed flush is pending must not inherit its deadline
                        let flush_pending = matches!(present, Some(it) if it.upper < it.own_upper);
                        let value_ok = matches!(after_e, Some(d) if d.value == *value && d.flags == *flags);
                        let clause = if after_e.is_none() && self.evict != Evict::Off {
                            // with eviction on, the one way an acknowledged record can be missing at once
                            "own-record-evicted"
                        } else if flush_pending && value_ok {
                            "store-after-flush-affected"
                        } else if value_ok {
                            // value and flags are the sent ones, the recorded life is not now + ttl:
                            // too short a life also breaks read-your-writes (C01), too long only C05
                            let short = matches!(after_e, Some(d) if d.expiry() < t_inf(now, *ttl));
                            if short {
                                "stored-expiry-short"
                            } else {
                                "stored-expiry"
                            }
                        } else if *kind == StoreKind::Set {
                            "stored-exactly"
                        } else {
                            "conditional-store-effect"
                        };
                        ev.viol.push(v(
                            clause,
                            format!("{} was acknowledged but the store holds {:?} (sent value {} flags {:#x} ttl {})", name, after_e, wire::show(value), flags, ttl),
                        ));
                    }
                }
                let mk_item = |t: u64, carried: BTreeSet<u64>, exempt: bool| -> Item {
                    let mut c2 = carried;
                    c2.insert(t);
                    let mut tc = BTreeSet::new();
                    tc.insert(*ttl);
                    Item {
                        value: value.clone(),
                        flags: *flags,
                        tok: t,
                        lower: t_inf(now, *ttl),
                        upper: t_inf(now, *ttl),
                        own_upper: t_inf(now, *ttl),
                        ttl_cands: tc,
                        stamp: now,
                        carried: c2,
                        exempt,
                    }
                };
                match present {
                    Some(it) => {
                        if *kind == StoreKind::Add {
                            if success {
                                ev.viol.push(v("add-on-present", format!("{} succeeded on a present key", name)));
                            } else if status != Some(st::EXISTS) {
                                ev.viol.push(v("add-on-present", format!("{} answered {:?}, expected 0x02", name, status)));
                            }
                            if !success && !unchanged {
                                ev.viol.push(v(
                                    "rejected-modified",
                                    format!("rejected {} changed the item: {:?} -> {:?}", name, before_e, after_e),
                                ));
                            }
                        } else {
                            let ok = c.cas == 0 || c.cas == it.tok;
                            if ok {
                                if success {
                                    let t = new_token(&mut ev, &it.carried, it.exempt);
                                    push_stale(&mut ev.ki.stale, it.tok, Some(t));
                                    ev.ki.st = KeyState::Item(mk_item(t, it.carried.clone(), it.exempt));
                                    ev.wrote = true;
                                } else {
                                    let clause = if c.cas == 0 {
                                        if *kind == StoreKind::Replace {
                                            "replace-on-present"
                                        } else {
                                            "store-must-succeed"
                                        }
                                    } else {
                                        "cas-should-succeed"
                                    };
                                    ev.viol.push(v(clause, format!("{} answered {:?} on a present key with CAS {}", name, status, it.tok)));
                                }
                            } else if success {
                                ev.viol.push(v(
                                    "cas-should-fail",
                                    format!("{} with CAS {} succeeded although the item carries {}", name, c.cas, it.tok),
                                ));
                            } else {
                                if status != Some(st::EXISTS) {
                                    ev.viol.push(v("cas-fail-status", format!("{} answered {:?}, expected 0x02", name, status)));
                                }
                                if !unchanged {
                                    ev.viol.push(v(
                                        "cas-fail-modified",
                                        format!("failed {} changed the item: {:?} -> {:?}", name, before_e, after_e),
                                    ));
                                }
                            }
                        }
                    }
                    None => {
                        let expired = matches!(ki.st, KeyState::Tomb(_));
                        if *kind == StoreKind::Replace {
                            if success {
                                let clause = if expired { tomb_visible_clause(&ki.st, false) } else { "replace-on-absent" };
                                ev.viol.push(v(clause, format!("{} succeeded on a key in state {:?}", name, ki.st)));
                            } else {
                                if status != Some(st::NOT_FOUND) {
                                    ev.viol.push(v("replace-on-absent", format!("{} answered {:?}, expected 0x01", name, status)));
                                }
                                if after_e.is_some() && !unchanged {
                                    ev.viol.push(v("nothing-stored", format!("rejected {} left {:?}", name, after_e)));
                                }
                            }
                        } else if success {
                            let t = new_token(&mut ev, &BTreeSet::new(), c.cas != 0);
                            ev.ki.st = KeyState::Item(mk_item(t, BTreeSet::new(), c.cas != 0));
                            ev.wrote = true;
                        } else if c.cas == 0 {
                            let clause = if *kind == StoreKind::Add {
                                if expired {
                                    tomb_visible_clause(&ki.st, false)
                                } else {
                                    "add-on-absent"
                                }
                            } else {
                                "store-must-succeed"
                            };
                            ev.viol.push(v(clause, format!("{} answered {:?} on a key in state {:?}", name, status, ki.st)));
                        } else {
                            // CAS != 0 on an absent key: no contract for what is stored - but 'key
                            // exists' from an add says the key is there, and it is not
                            if *kind == StoreKind::Add && status == Some(st::EXISTS) {
                                let clause = if expired { tomb_visible_clause(&ki.st, false) } else { "add-on-absent" };
                                ev.viol.push(v(clause, format!("{} answered 'key exists' on a key in state {:?}", name, ki.st)));
                            }
                            // an error must store nothing
                            if after_e.is_some() && !unchanged {
                                ev.viol.push(v("nothing-stored", format!("rejected {} left {:?}", name, after_e)));
                            }
                        }
                    }
                }
            }

            Cmd::Concat { append, value, .. } => match present {
                Some(it) => {
                    let ok = c.cas == 0 || c.cas == it.tok;
                    if ok {
                        if success {
                            let mut nv = Vec::with_capacity(it.value.len() + value.len());
                            if *append {
                                nv.extend_from_slice(&it.value);
                                nv.extend_from_slice(value);
                            } else {
                                nv.extend_from_slice(value);
                                nv.extend_from_slice(&it.value);
                            }
                            match after_e {
                                Some(d) => {
                                    if d.value != nv {
                                        ev.viol.push(v(
                                            "concat-value",
                                            format!("{} on {} produced {} expected {}", name, wire::show(&it.value), wire::show(&d.value), wire::show(&nv)),
                                        ));
                                    }
                                    if d.flags != it.flags {
                                        ev.viol.push(v(
                                            "concat-flags",
                                            format!("{} changed the flags {:#x} -> {:#x}", name, it.flags, d.flags),
                                        ));
                                    }
                                }
                                None => ev.viol.push(v(
                                    if self.evict != Evict::Off { "own-record-evicted" } else { "concat-value" },
                                    format!("{} acknowledged but the item is gone", name),
                                )),
                            }
                            let t = new_token(&mut ev, &it.carried, it.exempt);
                            let mut ni = it.clone();
                            ni.value = nv;
                            ni.tok = t;
                            ni.carried.insert(t);
                            let mut ou = ni.own_upper;
                            for tc in &ni.ttl_cands {
                                ou = ou.max(t_inf(now, *tc));
                            }
                            ni.own_upper = ou;
                            ni.upper = ou;
                            ni.stamp = now;
                            push_stale(&mut ev.ki.stale, it.tok, Some(t));
                            ev.ki.st = KeyState::Item(ni);
                            ev.wrote = true;
                        } else {
                            let clause = if c.cas == 0 { "concat-must-succeed" } else { "cas-should-succeed" };
                            ev.viol.push(v(clause, format!("{} answered {:?} on a present key with CAS {}", name, status, it.tok)));
                        }
                    } else if success {
                        ev.viol.push(v(
                            "cas-should-fail",
                            format!("{} with CAS {} succeeded although the item carries {}", name, c.cas, it.tok),
                        ));
                    } else {
                        if status != Some(st::EXISTS) {
                            ev.viol.push(v("cas-fail-status", format!("{} answered {:?}, expected 0x02", name, status)));
                        }
                        if !unchanged {
                            ev.viol.push(v(
                                "cas-fail-modified",
                                format!("failed {} changed the item: {:?} -> {:?}", name, before_e, after_e),
                            ));
                        }
                    }
                }
                None => {
                    if success {
                        let clause = if matches!(ki.st, KeyState::Tomb(_)) { tomb_visible_clause(&ki.st, false) } else { "concat-on-absent" };
                        ev.viol.push(v(clause, format!("{} succeeded on a key in state {:?}", name, ki.st)));
                    } else if after_e.is_some() && !unchanged {
                        ev.viol.push(v("nothing-stored", format!("rejected {} left {:?}", name, after_e)));
                    }
                }
            },

            Cmd::Delta { incr, delta, initial, exp, .. } => match present {
                Some(it) => {
                    let cas_ok = c.cas == 0 || c.cas == it.tok;
                    let num = classify_number(&it.value);
                    let reading = match &num {
                        Num::Strict(x) => Some(*x),
                        Num::Loose(x) => *x,
                        Num::No => None,
                    };
                    if success {
                        if !cas_ok {
                            ev.viol.push(v(
                                "cas-should-fail",
                                format!("{} with CAS {} succeeded although the item carries {}", name, c.cas, it.tok),
                            ));
                        }
                        match reading {
                            None => ev.viol.push(v(
                                "counter-nonnumeric",
                                format!("{} succeeded on the non-numeric value {}", name, wire::show(&it.value)),
                            )),
                            Some(x) => {
                                let want = if *incr { x.wrapping_add(*delta) } else { x.saturating_sub(*delta) };
                                if let Some(r) = r {
                                    if r.status == st::OK && r.body.len() == 8 {
                                        let got = u64::from_be_bytes(r.body[..8].try_into().unwrap());
                                        if got != want {
                                            ev.viol.push(v(
                                                "counter-value",
                                                format!("{} on {} returned {} expected {}", name, wire::show(&it.value), got, want),
                                            ));
                                        }
                                    }
                                }
                                let text = want.to_string().into_bytes();
                                match after_e {
                                    Some(d) => {
                                        if d.value != text {
                                            ev.viol.push(v(
                                                "counter-text",
                                                format!("{} stored {} expected {}", name, wire::show(&d.value), wire::show(&text)),
                                            ));
                                        }
                                        if d.flags != it.flags {
                                            ev.viol.push(v(
                                                "counter-flags",
                                                format!("{} changed the item's flags {:#x} -> {:#x}", name, it.flags, d.flags),
                                            ));
                                        }
                                    }
                                    None => ev.viol.push(v(
                                        if self.evict != Evict::Off { "own-record-evicted" } else { "counter-text" },
                                        format!("{} acknowledged but the item is gone", name),
                                    )),
                                }
                                let t = new_token(&mut ev, &it.carried, it.exempt);
                                let mut ni = it.clone();
                                ni.value = text;
                                ni.tok = t;
                                ni.carried.insert(t);
                                // the expiration of an incr/decr request is for creating the counter;
                                // an existing item keeps its own TTL, counted at most from this mutation
                                // (as for append/prepend) - C05: no command prolongs an item's life
                                // beyond its own TTL
                                let mut ou = ni.own_upper;
                                for tc in &ni.ttl_cands {
                                    ou = ou.max(t_inf(now, *tc));
                                }
                                if now >= it.lower {
                                    // inside the item's expiry window the store may already count it
                                    // as gone: the command then created a fresh counter, whose life
                                    // is the request's expiration
                                    ni.lower = ni.lower.min(t_inf(now, *exp));
                                    ou = ou.max(t_inf(now, *exp));
                                    ni.ttl_cands.insert(*exp);
                                }
                                ni.own_upper = ou;
                                ni.upper = ou;
                                ni.stamp = now;
                                push_stale(&mut ev.ki.stale, it.tok, Some(t));
                                ev.ki.st = KeyState::Item(ni);
                                ev.wrote = true;
                            }
                        }
                    } else {
                        // failure: which statuses are acceptable?
                        // C07 is stated for every CAS field: a value that is certainly no decimal u64
                        // is answered 'non-numeric value', whatever CAS the request carries (C02's
                        // 'key exists' is for a mutation that fails because of its CAS)
                        let mut acceptable: Vec<u16> = vec![];
                        if !cas_ok && !matches!(num, Num::No) {
                            acceptable.push(st::EXISTS);
                        }
                        match num {
                            Num::Strict(_) => {}
                            Num::Loose(_) | Num::No => acceptable.push(st::NON_NUMERIC),
                        }
                        if acceptable.is_empty() {
                            ev.viol.push(v(
                                "counter-must-succeed",
                                format!("{} answered {:?} on the numeric value {}", name, status, wire::show(&it.value)),
                            ));
                        } else if !status.map(|s| acceptable.contains(&s)).unwrap_or(false) {
                            let clause = if matches!(num, Num::Strict(_)) { "cas-fail-status" } else { "counter-nonnumeric" };
                            ev.viol.push(v(clause, format!("{} answered {:?}, expected one of {:x?}", name, status, acceptable)));
                        }
                        if !unchanged {
                            let clause = if matches!(num, Num::Strict(_)) { "cas-fail-modified" } else { "counter-nonnumeric" };
                            ev.viol.push(v(
                                clause,
                                format!("failed {} changed the item: {:?} -> {:?}", name, before_e, after_e),
                            ));
                        }
                    }
                }
                None => {
                    if *exp == 0xffff_ffff {
                        if success {
                            ev.viol.push(v("counter-ffffffff", format!("{} created an item although expiration is 0xffffffff", name)));
                        } else {
                            if status != Some(st::NOT_FOUND) {
                                ev.viol.push(v("counter-ffffffff", format!("{} answered {:?}, expected 0x01", name, status)));
                            }
                            if after_e.is_some() && !unchanged {
                                ev.viol.push(v("counter-ffffffff", format!("{} left {:?}", name, after_e)));
                            }
                        }
                    } else if success {
                        if let Some(r) = r {
                            if r.status == st::OK && r.body.len() == 8 {
                                let got = u64::from_be_bytes(r.body[..8].try_into().unwrap());
                                if got != *initial {
                                    ev.viol.push(v("counter-create", format!("{} returned {} expected initial {}", name, got, initial)));
                                }
                            }
                        }
                        let text = initial.to_string().into_bytes();
                        let flags = match after_e {
                            Some(d) => {
                                if d.value != text {
                                    ev.viol.push(v(
                                        "counter-create",
                                        format!("{} stored {} expected {}", name, wire::show(&d.value), wire::show(&text)),
                                    ));
                                }
                                d.flags
                            }
                            None => {
                                ev.viol.push(v("counter-create", format!("{} acknowledged but nothing is stored", name)));
                                0
                            }
                        };
                        let t = new_token(&mut ev, &BTreeSet::new(), c.cas != 0);
                        let mut carried = BTreeSet::new();
                        carried.insert(t);
                        let mut tc = BTreeSet::new();
                        tc.insert(*exp);
                        ev.ki.st = KeyState::Item(Item {
                            value: text,
                            flags,
                            tok: t,
                            lower: t_inf(now, *exp),
                            upper: t_inf(now, *exp),
                            own_upper: t_inf(now, *exp),
                            ttl_cands: tc,
                            stamp: now,
                            carried,
                            exempt: c.cas != 0,
                        });
                        ev.wrote = true;
                    } else if c.cas == 0 || status == Some(st::NOT_FOUND) {
                        // C07 is stated for every CAS field: on an absent key the counter is created
                        // whatever CAS the request carries (there is no item a CAS could mismatch);
                        // 'not found' is the answer reserved for expiration 0xffffffff
                        let clause = if matches!(ki.st, KeyState::Tomb(_)) { tomb_visible_clause(&ki.st, true) } else { "counter-create" };
                        ev.viol.push(v(clause, format!("{} answered {:?} on a key in state {:?}", name, status, ki.st)));
                    } else if after_e.is_some() && !unchanged {
                        ev.viol.push(v("nothing-stored", format!("rejected {} left {:?}", name, after_e)));
                    }
                }
            },

            Cmd::Delete { .. } => match present {
                Some(it) => {
                    let ok = c.cas == 0 || c.cas == it.tok;
                    if ok {
                        if success {
                            if after_e.is_some() {
                                ev.viol.push(v("delete-not-removed", format!("{} acknowledged but the item is still stored", name)));
                            }
                            push_stale(&mut ev.ki.stale, it.tok, None);
                            ev.ki.st = KeyState::Absent(Gone::Deleted);
                        } else {
                            let clause = if c.cas == 0 { "delete-status" } else { "cas-should-succeed" };
                            ev.viol.push(v(clause, format!("{} answered {:?} on a present key", name, status)));
                        }
                    } else if success {
                        ev.viol.push(v(
                            "cas-should-fail",
                            format!("{} with CAS {} succeeded although the item carries {}", name, c.cas, it.tok),
                        ));
                    } else {
                        if status != Some(st::EXISTS) {
                            ev.viol.push(v("cas-fail-status", format!("{} answered {:?}, expected 0x02", name, status)));
                        }
                        if !unchanged {
                            ev.viol.push(v(
                                "cas-fail-modified",
                                format!("failed {} changed the item: {:?} -> {:?}", name, before_e, after_e),
                            ));
                        }
                    }
                }
                None => match ki.st {
                    KeyState::Tomb(_) => {
                        if success {
                            ev.ki.st = KeyState::Absent(Gone::Deleted);
                        } else {
                            let okst = status == Some(st::NOT_FOUND) || (c.cas != 0 && status == Some(st::EXISTS));
                            if !okst {
                                ev.viol.push(v("delete-status", format!("{} answered {:?} on an expired key", name, status)));
                            }
                        }
                    }
                    _ => {
                        if success || status != Some(st::NOT_FOUND) {
                            ev.viol.push(v("delete-status", format!("{} answered {:?} on an absent key, expected 0x01", name, status)));
                        }
                        if after_e.is_some() {
                            ev.viol.push(v("nothing-stored", format!("{} left {:?}", name, after_e)));
                        }
                    }
                },
            },
            _ => unreachable!(),
        }
        // a rejected command must not move the item's expiry either (C05: nothing prolongs a life)
        if !success && !is_get && unchanged && !same_expiry(before_e, after_e) && ev.viol.is_empty() {
            ev.viol.push(v(
                "rejected-changed-expiry",
                format!("rejected {} changed the item's expiry: {:?} -> {:?}", name, before_e.map(|d| d.expiry()), after_e.map(|d| d.expiry())),
            ));
        }
        ev
    }
}
