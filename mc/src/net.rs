//! E4 `net`: deterministic exploration of the socket layer on real TCP.
//!
//! The real `MemcacheTcpServer::run` (accept loop, connection semaphore, `Client::handle`,
//! `MemcacheBinaryConnection`) runs on a paused `current_thread` tokio runtime; clients are plain
//! non-blocking std sockets driven from the same OS thread.  `settle()` = `block_on(sleep(1 ms))`:
//! with the clock paused tokio advances virtual time only when no task is runnable and the I/O
//! driver has nothing to deliver, i.e. it returns exactly when every server task is blocked.

#![allow(dead_code)]

use crate::sut::{Clock, DumpItem, Policy};
use memcrs::cache::cache::Cache;
use memcrs::memcache::random_policy::RandomPolicy;
use memcrs::memcache_server::memc_tcp::{MemcacheServerConfig, MemcacheTcpServer};
use memcrs::memory_store::store::MemoryStore;
use std::cell::Cell;
use std::io::{Read, Write};
use std::net::{Shutdown, SocketAddr, TcpStream};
use std::os::fd::AsRawFd;
use std::sync::atomic::{AtomicU32, Ordering};
use std::sync::Arc;
use std::time::Duration;

#[derive(Clone, Copy, Debug)]
pub struct NetCfg {
    pub item_limit: u32,
    pub conn_limit: u32,
    pub policy: Policy,
    pub timeout_secs: u32,
    /// accept loops sharing the one connection semaphore, each with its own SO_REUSEPORT socket
    /// (what `--runtime-type current-thread --threads N` sets up); 1 = the plain server
    pub listeners: u8,
}

impl Default for NetCfg {
    fn default() -> Self {
        NetCfg { item_limit: 1024, conn_limit: 64, policy: Policy::None, timeout_secs: 60, listeners: 1 }
    }
}

static WORKER_SEQ: AtomicU32 = AtomicU32::new(1);
thread_local! {
    static WORKER: Cell<u32> = const { Cell::new(0) };
    static NEXT_PORT: Cell<u16> = const { Cell::new(0) };
}

/// Loopback address owned by this worker thread: 127.<pid hi>.<pid lo>.<worker>.  The server sets
/// SO_REUSEPORT, so sharing an address/port with another run would silently load-balance
/// connections between two servers.
fn my_ip() -> [u8; 4] {
    let w = WORKER.with(|c| {
        if c.get() == 0 {
            c.set(WORKER_SEQ.fetch_add(1, Ordering::SeqCst));
        }
        c.get()
    });
    let pid = std::process::id();
    let hi = ((pid >> 8) & 0xff) as u8;
    let lo = (pid & 0xff) as u8;
    [127, hi.max(1), lo, (w % 250 + 2) as u8]
}

fn next_port() -> u16 {
    NEXT_PORT.with(|c| {
        let mut p = c.get();
        if !(20000..60000).contains(&p) {
            p = 20000 + ((std::process::id() as u16) % 1000) * 7;
        }
        c.set(p + 1);
        p
    })
}

/// A connect that the kernel does not complete at once (accept queue full: the SYN is dropped and
/// retransmitted after 1 s) is given up after this much real time and reported, not waited out.
const CONNECT_PATIENCE: Duration = Duration::from_millis(1500);

pub struct NetWorld {
    pub rt: tokio::runtime::Runtime,
    pub addr: SocketAddr,
    pub clock: Arc<Clock>,
    pub mem: Arc<MemoryStore>,
    pub pol: Option<Arc<RandomPolicy>>,
    server: tokio::task::JoinHandle<std::io::Result<()>>,
    extra_listeners: Vec<tokio::task::JoinHandle<std::io::Result<()>>>,
    pub cfg: NetCfg,
}

impl NetWorld {
    pub fn new(cfg: NetCfg) -> Result<NetWorld, String> {
        crate::sut::init_hooks();
        let rt = tokio::runtime::Builder::new_current_thread()
            .enable_all()
            .start_paused(true)
            .build()
            .map_err(|e| format!("runtime: {}", e))?;
        let clock = Arc::new(Clock::default());
        let mem = Arc::new(MemoryStore::new(clock.clone()));
        let (pol, cache): (Option<Arc<RandomPolicy>>, Arc<dyn Cache + Send + Sync>) = match cfg.policy {
            Policy::None => (None, mem.clone()),
            Policy::Random(l) => {
                let p = Arc::new(RandomPolicy::new(mem.clone(), l));
                (Some(p.clone()), p)
            }
        };
        let ip = my_ip();
        for _attempt in 0..200 {
            let port = next_port();
            let addr = SocketAddr::from((ip, port));
            let scfg = MemcacheServerConfig::new(cfg.timeout_secs, cfg.conn_limit, cfg.item_limit, 128);
            let mut server = MemcacheTcpServer::new(scfg, cache.clone());
            let clones: Vec<MemcacheTcpServer> = (1..cfg.listeners.max(1)).map(|_| server.clone()).collect();
            let handle = rt.spawn(async move { server.run(addr).await });
            rt.block_on(async { tokio::time::sleep(Duration::from_millis(1)).await });
            if handle.is_finished() {
                continue; // bind failed: port in use
            }
            let mut extra_listeners = vec![];
            for mut s2 in clones {
                extra_listeners.push(rt.spawn(async move { s2.run(addr).await }));
            }
            rt.block_on(async { tokio::time::sleep(Duration::from_millis(1)).await });
            return Ok(NetWorld { rt, addr, clock, mem, pol, server: handle, extra_listeners, cfg });
        }
        Err("could not bind a loopback port".into())
    }

    /// Runs the server until every task is blocked.
    pub fn settle(&self) {
        self.rt.block_on(async { tokio::time::sleep(Duration::from_millis(1)).await });
    }

    /// Lets `secs` of virtual time pass (idle timeouts).
    pub fn advance(&self, secs: u64) {
        self.rt.block_on(async { tokio::time::sleep(Duration::from_secs(secs)).await });
    }

    pub fn server_alive(&self) -> bool {
        !self.server.is_finished() && self.extra_listeners.iter().all(|h| !h.is_finished())
    }

    pub fn connect(&self) -> Result<NetClient, String> {
        let s = TcpStream::connect_timeout(&self.addr, CONNECT_PATIENCE).map_err(|e| {
            if std::env::var("MC_TRACE_CONNECT").is_ok() {
                eprintln!("connect failed: {} while {}", e, crate::watchdog::current().0);
            }
            format!("connect: {} (the server is not running meanwhile: the kernel's accept queue did not take the connection)", e)
        })?;
        s.set_nonblocking(true).map_err(|e| e.to_string())?;
        s.set_nodelay(true).map_err(|e| e.to_string())?;
        let c = NetClient { s: Some(s), eof: false, reset: false, got: vec![] };
        self.settle();
        Ok(c)
    }

    /// Connects without letting the server run (the connection sits in the accept queue).
    pub fn connect_nosettle(&self) -> Result<NetClient, String> {
        let s = TcpStream::connect_timeout(&self.addr, CONNECT_PATIENCE).map_err(|e| {
            if std::env::var("MC_TRACE_CONNECT").is_ok() {
                eprintln!("connect failed: {} while {}", e, crate::watchdog::current().0);
            }
            format!("connect: {} (the server is not running meanwhile: the kernel's accept queue did not take the connection)", e)
        })?;
        s.set_nonblocking(true).map_err(|e| e.to_string())?;
        s.set_nodelay(true).map_err(|e| e.to_string())?;
        Ok(NetClient { s: Some(s), eof: false, reset: false, got: vec![] })
    }

    pub fn dump(&self) -> Vec<DumpItem> {
        self.mem
            .verif_dump()
            .into_iter()
            .map(|i| DumpItem {
                key: i.key.to_vec(),
                value: i.value.to_vec(),
                ts: i.timestamp,
                cas: i.cas,
                flags: i.flags,
                ttl: i.time_to_live,
            })
            .collect()
    }
}

impl Drop for NetWorld {
    fn drop(&mut self) {
        for h in &self.extra_listeners {
            h.abort();
        }
        self.server.abort();
    }
}

pub struct NetClient {
    s: Option<TcpStream>,
    pub eof: bool,
    pub reset: bool,
    /// everything received so far
    pub got: Vec<u8>,
}

impl NetClient {
    /// Writes all bytes (the server is not running meanwhile, so this relies on kernel buffers;
    /// large writes are interleaved with settles by the caller through `send_settling`).
    pub fn send(&mut self, w: &NetWorld, bytes: &[u8]) -> Result<(), String> {
        let mut off = 0;
        let mut spins = 0;
        while off < bytes.len() {
            let s = match self.s.as_mut() {
                Some(s) => s,
                None => return Err("send on a closed client".into()),
            };
            match s.write(&bytes[off..]) {
                Ok(0) => return Err("write returned 0".into()),
                Ok(n) => {
                    off += n;
                    spins = 0;
                }
                Err(e) if e.kind() == std::io::ErrorKind::WouldBlock => {
                    // kernel buffers full: let the server drain them
                    w.settle();
                    self.pump();
                    spins += 1;
                    if spins > 100_000 {
                        return Err("send made no progress".into());
                    }
                }
                Err(e) => {
                    self.reset = true;
                    return Err(format!("write: {}", e));
                }
            }
        }
        self.wait_sent(w);
        Ok(())
    }

    /// Waits until the bytes written have been handed to the device (on loopback they are in the
    /// peer's receive queue then).  While the peer's window is full the server has to run to drain it.
    fn wait_sent(&mut self, w: &NetWorld) {
        for _ in 0..1_000_000 {
            let q = match self.s.as_ref() {
                Some(s) => {
                    let fd = s.as_raw_fd();
                    let mut q: libc::c_int = 0;
                    // SIOCOUTQNSD: bytes not yet handed to the device.  (TIOCOUTQ also counts sent but
                    // unacknowledged bytes and would wait out the receiver's 40 ms delayed ACK.)
                    const SIOCOUTQNSD: libc::c_ulong = 0x894B;
                    let r = unsafe { libc::ioctl(fd, SIOCOUTQNSD, &mut q) };
                    if r != 0 {
                        0
                    } else {
                        q
                    }
                }
                None => 0,
            };
            if q == 0 {
                break;
            }
            w.settle();
            self.pump();
        }
    }

    /// Writes without ever reading: as many of `bytes` as the kernel takes while the server runs in
    /// between; returns how many were written once two rounds in a row made no progress (both
    /// directions full: the server is blocked writing responses nobody reads).
    pub fn send_never_reading(&mut self, w: &NetWorld, bytes: &[u8]) -> usize {
        let mut off = 0;
        let mut stuck = 0;
        while off < bytes.len() && stuck < 2 {
            let s = match self.s.as_mut() {
                Some(s) => s,
                None => break,
            };
            match s.write(&bytes[off..]) {
                Ok(0) => break,
                Ok(n) => {
                    off += n;
                    stuck = 0;
                }
                Err(e) if e.kind() == std::io::ErrorKind::WouldBlock => {
                    stuck += 1;
                    w.settle();
                }
                Err(_) => {
                    self.reset = true;
                    break;
                }
            }
        }
        w.settle();
        off
    }

    /// Shrinks this client's receive buffer (a slow consumer): the server's responses then stay in
    /// the server's send queue, unacknowledged, once a few kilobytes are waiting here.
    pub fn set_rcvbuf(&self, bytes: i32) {
        if let Some(s) = self.s.as_ref() {
            unsafe {
                libc::setsockopt(
                    s.as_raw_fd(),
                    libc::SOL_SOCKET,
                    libc::SO_RCVBUF,
                    &bytes as *const _ as *const libc::c_void,
                    std::mem::size_of::<i32>() as libc::socklen_t,
                );
            }
        }
    }

    /// Reads whatever has arrived.
    pub fn pump(&mut self) {
        let s = match self.s.as_mut() {
            Some(s) => s,
            None => return,
        };
        let mut buf = [0u8; 65536];
        loop {
            match s.read(&mut buf) {
                Ok(0) => {
                    self.eof = true;
                    break;
                }
                Ok(n) => self.got.extend_from_slice(&buf[..n]),
                Err(e) if e.kind() == std::io::ErrorKind::WouldBlock => break,
                Err(_) => {
                    self.reset = true;
                    self.eof = true;
                    break;
                }
            }
        }
    }

    /// send + settle + read
    pub fn step(&mut self, w: &NetWorld, bytes: &[u8]) -> Result<(), String> {
        let r = self.send(w, bytes);
        w.settle();
        self.pump();
        r
    }

    pub fn close(&mut self, w: &NetWorld) {
        self.s = None;
        w.settle();
    }

    pub fn shutdown_write(&mut self, w: &NetWorld) {
        if let Some(s) = self.s.as_ref() {
            let _ = s.shutdown(Shutdown::Write);
        }
        w.settle();
        self.pump();
    }

    /// Abortive close: SO_LINGER 0 makes close() send RST.
    pub fn abort(&mut self, w: &NetWorld) {
        if let Some(s) = self.s.take() {
            let fd = s.as_raw_fd();
            let lg = libc::linger { l_onoff: 1, l_linger: 0 };
            unsafe {
                libc::setsockopt(
                    fd,
                    libc::SOL_SOCKET,
                    libc::SO_LINGER,
                    &lg as *const _ as *const libc::c_void,
                    std::mem::size_of::<libc::linger>() as libc::socklen_t,
                );
            }
            drop(s);
        }
        w.settle();
    }

    pub fn is_open(&self) -> bool {
        self.s.is_some()
    }
}

/// Runs a whole byte stream through a fresh server, cut into the given chunks; returns what the
/// client received, whether the server closed the connection, and the final dump.
pub struct StreamRun {
    pub received: Vec<u8>,
    pub eof: bool,
    pub reset: bool,
    pub dump: Vec<DumpItem>,
    pub panics: u64,
    pub server_alive: bool,
}

pub fn run_stream(cfg: NetCfg, chunks: &[&[u8]], then_half_close: bool) -> Result<StreamRun, String> {
    let p0 = crate::sut::thread_panics();
    let t = std::time::Instant::now();
    let w = NetWorld::new(cfg)?;
    if std::env::var("MC_TIME").is_ok() { eprintln!("new {:?}", t.elapsed()); }
    let mut c = w.connect()?;
    if std::env::var("MC_TIME").is_ok() { eprintln!("connected {:?}", t.elapsed()); }
    for ch in chunks {
        if ch.is_empty() {
            continue;
        }
        if c.step(&w, ch).is_err() {
            break;
        }
        if std::env::var("MC_TIME").is_ok() { eprintln!("step {} {:?}", ch.len(), t.elapsed()); }
    }
    if then_half_close {
        c.shutdown_write(&w);
    }
    if std::env::var("MC_TIME").is_ok() { eprintln!("chunks {:?}", t.elapsed()); }
    w.settle();
    c.pump();
    if std::env::var("MC_TIME").is_ok() { eprintln!("settled {:?}", t.elapsed()); }
    let dump = w.dump();
    let alive = w.server_alive();
    let r = StreamRun {
        received: c.got.clone(),
        eof: c.eof,
        reset: c.reset,
        dump,
        panics: crate::sut::thread_panics() - p0,
        server_alive: alive,
    };
    Ok(r)
}
