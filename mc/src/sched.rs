//! E1 `sched`: stateless, preemption-bounded, exhaustive schedule exploration of the real store.
//!
//! shuttle's execution engine (continuations, blocking, deadlock detection) is driven by the
//! depth-first scheduler below; scheduling points are DashMap's shard-lock operations (vendored
//! dashmap with its lock routed to shuttle's BatchSemaphore) and the two atomics of memcrs (hook).
//! Victim choices of the random eviction policy are data choices in the same choice tree.

#![allow(dead_code)]

use crate::cmd::{CasArg, Cmd};
use crate::explore;
use crate::linspec::{linearizable, LItem, LKey, LState, OpObs};
use crate::sut::{self, DumpItem, Policy, SutCfg, World};
use crate::wire::{self, op, Req, Resp};
use shuttle::scheduler::{Schedule, Scheduler, Task, TaskId};
use std::cell::RefCell;
use std::collections::hash_map::DefaultHasher;
use std::collections::{HashMap, HashSet};
use std::hash::{Hash, Hasher};
use std::sync::atomic::{AtomicU64, Ordering};
use std::sync::{Arc, Mutex};

#[derive(Clone, Copy, Debug, PartialEq, Eq, Hash)]
pub enum Init {
    Absent,
    Present,
    /// stored with TTL 1 and the clock advanced to exactly the expiry second: still in the map
    Expired,
}

impl Init {
    pub fn name(&self) -> &'static str {
        match self {
            Init::Absent => "absent",
            Init::Present => "present",
            Init::Expired => "expired",
        }
    }
}

#[derive(Clone, Debug)]
pub struct Program {
    /// state of every key in `keys` before the concurrent phase
    pub init: Init,
    pub init_value: Vec<u8>,
    pub keys: Vec<Vec<u8>>,
    pub clients: Vec<Vec<Cmd>>,
    pub policy: Policy,
    pub shards: usize,
    /// part of the identity of a finding when the same commands are run in a special setting
    /// (e.g. under memory pressure); empty for the ordinary families
    pub tag: &'static str,
}

impl Program {
    pub fn describe(&self) -> String {
        let cl: Vec<String> = self
            .clients
            .iter()
            .map(|c| c.iter().map(|x| x.short()).collect::<Vec<_>>().join(" ; "))
            .collect();
        format!("init={} keys={:?} policy={:?} || {}", self.init.name(), self.keys.iter().map(|k| wire::show(k)).collect::<Vec<_>>(), self.policy, cl.join("  ||  "))
    }
    /// sorted multiset of concurrent command kinds
    pub fn kinds(&self) -> Vec<String> {
        let mut v: Vec<String> = self
            .clients
            .iter()
            .map(|c| c.iter().map(|x| kind_with_cas(x)).collect::<Vec<_>>().join(","))
            .collect();
        v.sort();
        v
    }
}

pub fn kind_with_cas(c: &Cmd) -> String {
    let k = c.kind();
    match c.cas_arg() {
        Some(CasArg::Zero) | None => k.to_string(),
        Some(CasArg::Current) => format!("{}[cas=cur]", k),
        Some(CasArg::Stale1) | Some(CasArg::Stale2) => format!("{}[cas=stale]", k),
        Some(_) => format!("{}[cas=other]", k),
    }
}

#[derive(Clone, Copy, Debug)]
pub struct SchedOpts {
    pub max_bound: u32,
    pub check_lin: bool,
    /// check C14's at-rest bound with this memory limit
    pub c14: bool,
    /// clause reported when the sequential stores issued after the concurrent phase break the bound
    pub c14_clause: &'static str,
    /// check that (accounted usage - stored bytes) is the same before and after the concurrent
    /// phase (C15; only meaningful for programs whose commands account exactly when run alone)
    pub c15: bool,
    pub max_steps: usize,
    pub max_execs: u64,
    /// C05: after the concurrent phase the clock moves on by this many seconds; no record whose
    /// own timestamp + TTL lies at or before the new time may then be returned by a get
    pub advance_after: u64,
}

#[derive(Clone, Debug)]
pub struct SchedViol {
    pub clause: &'static str,
    pub detail: String,
    pub choices: Vec<usize>,
    pub bound: u32,
}

#[derive(Clone, Debug, Default)]
pub struct ProgResult {
    pub executions: u64,
    pub executions_per_bound: Vec<u64>,
    pub choice_points: u64,
    pub sched_points: u64,
    pub max_depth: usize,
    pub distinct_outcomes: usize,
    pub bound_completed: Option<u32>,
    /// the last bound explored skipped no alternative: every schedule was enumerated
    pub saturated: bool,
    pub capped: bool,
    pub violation: Option<SchedViol>,
    pub error: Option<String>,
}

/// Everything fixed before exploration: request bytes with resolved CAS values.
struct Prepared {
    prog: Program,
    cfg: SutCfg,
    init_reqs: Vec<Vec<u8>>,
    clock_after_init: u64,
    /// per client: (request bytes, resolved cas)
    clients: Vec<Vec<(Vec<u8>, u64)>>,
    init_state: LState,
    /// tokens issued for the keys before the concurrent phase (both initial stores of each key)
    init_tokens: Vec<(Vec<u8>, u64)>,
    opts: SchedOpts,
    /// total size of the records the program's stores can write (C14 bound)
    store_sizes: u64,
}

struct ExecResult {
    viol: Option<(&'static str, String)>,
    outcome_hash: u64,
}

thread_local! {
    static LAST: RefCell<Option<ExecResult>> = const { RefCell::new(None) };
    static VERDICTS: RefCell<HashMap<u64, Option<(&'static str, String)>>> = RefCell::new(HashMap::new());
}

/// `single`: run exactly one execution (replay, warm-up); otherwise the thread-local driver
/// decides, so that one shuttle Runner (and its continuation pool) serves many executions.
struct DfsSched {
    started: bool,
    single: bool,
    /// fairness: the task that ran last and for how many consecutive scheduling points
    last: usize,
    consec: u32,
}

/// A task that has taken this many scheduling points in a row while another client could run is
/// spinning (no command of the store needs a tenth of it): it is made to yield to the others, at no
/// preemption cost and without branching.  Waiting for somebody else is then not reported as a
/// livelock - spinning that goes on once the others have finished still exhausts the step horizon.
const SPIN_YIELD_AFTER: u32 = 2000;

/// Per-program exploration state shared between the scheduler and `explore_program`.
struct Driver {
    dfs: explore::Dfs,
    in_flight: bool,
    stop: bool,
    bound: u32,
    max_execs: u64,
    execs_before: u64,
    outcomes: HashSet<u64>,
    violation: Option<SchedViol>,
    error: Option<String>,
    capped: bool,
}

impl Driver {
    /// Closes the execution in flight with its result.
    fn finalize(&mut self, failure: Option<String>) {
        if !self.in_flight {
            return;
        }
        self.in_flight = false;
        let ctx = explore::end();
        let choices: Vec<usize> = ctx.log.iter().map(|q| q.chosen).collect();
        if let Err(e) = self.dfs.finish(ctx) {
            self.error = Some(e);
            self.stop = true;
            return;
        }
        let res = LAST.with(|l| l.borrow_mut().take());
        match (failure, res) {
            (None, Some(e)) => {
                self.outcomes.insert(e.outcome_hash);
                if let Some((clause, detail)) = e.viol {
                    self.violation = Some(SchedViol { clause, detail, choices, bound: self.bound });
                    self.stop = true;
                }
            }
            (None, None) => {
                self.error = Some("execution finished without a result".into());
                self.stop = true;
            }
            (Some(msg), _) => {
                let clause = if msg.contains("deadlock") {
                    Some("deadlock")
                } else if msg.contains("max_steps") {
                    Some("livelock")
                } else {
                    None
                };
                match clause {
                    Some(c) => self.violation = Some(SchedViol { clause: c, detail: msg, choices, bound: self.bound }),
                    None => self.error = Some(format!("engine failure: {}", msg)),
                }
                self.stop = true;
            }
        }
        if self.execs_before + self.dfs.executions >= self.max_execs || ((self.dfs.executions & 1023) == 0 && past_deadline()) {
            self.capped = true;
            self.stop = true;
        }
    }

    fn next(&mut self) -> Option<Schedule> {
        crate::watchdog::beat();
        self.finalize(None);
        if self.stop {
            return None;
        }
        match self.dfs.next_prefix() {
            None => None,
            Some(p) => {
                explore::begin(p);
                LAST.with(|l| *l.borrow_mut() = None);
                self.in_flight = true;
                Some(Schedule::new(0))
            }
        }
    }
}

thread_local! {
    static DRIVER: RefCell<Option<Driver>> = const { RefCell::new(None) };
}

/// Wall-clock deadline of the whole check (milliseconds since UNIX epoch, 0 = none): programs still
/// running then are reported as capped (never as exhaustive).
pub static DEADLINE_MS: AtomicU64 = AtomicU64::new(0);

fn past_deadline() -> bool {
    let d = DEADLINE_MS.load(Ordering::Relaxed);
    if d == 0 {
        return false;
    }
    let now = std::time::SystemTime::now().duration_since(std::time::UNIX_EPOCH).map(|x| x.as_millis() as u64).unwrap_or(0);
    now > d
}

pub fn set_deadline_in(secs: u64) {
    let now = std::time::SystemTime::now().duration_since(std::time::UNIX_EPOCH).map(|x| x.as_millis() as u64).unwrap_or(0);
    DEADLINE_MS.store(now + secs * 1000, Ordering::Relaxed);
}

impl Scheduler for DfsSched {
    fn new_execution(&mut self) -> Option<Schedule> {
        self.last = usize::MAX;
        self.consec = 0;
        if self.single {
            if self.started {
                None
            } else {
                self.started = true;
                Some(Schedule::new(0))
            }
        } else {
            DRIVER.with(|d| d.borrow_mut().as_mut().and_then(|d| d.next()))
        }
    }

    fn next_task(&mut self, runnable: &[&Task], current: Option<TaskId>, _is_yielding: bool) -> Option<TaskId> {
        let mut ids: Vec<usize> = runnable.iter().map(|t| usize::from(t.id())).collect();
        ids.sort_unstable();
        if ids.len() == 1 {
            return Some(TaskId::from(ids[0]));
        }
        let cur = current.map(usize::from);
        let cur_runnable = cur.map_or(false, |c| ids.contains(&c));
        // the main task only spawns, joins and inspects: its steps commute with the clients', so it
        // is never preempted and never chosen while a client can run
        if cur_runnable && cur == Some(0) {
            return Some(TaskId::from(0));
        }
        ids.retain(|i| *i != 0);
        if ids.len() == 1 {
            return Some(TaskId::from(ids[0]));
        }
        let mut order: Vec<usize> = Vec::with_capacity(ids.len());
        if cur_runnable {
            order.push(cur.unwrap());
        }
        for i in &ids {
            if Some(*i) != cur || !cur_runnable {
                order.push(*i);
            }
        }
        if cur_runnable {
            if self.last == order[0] {
                self.consec += 1;
            } else {
                self.last = order[0];
                self.consec = 0;
            }
            if self.consec >= SPIN_YIELD_AFTER {
                // forced yield of a spinner to the next client in id order
                self.consec = 0;
                self.last = order[1];
                return Some(TaskId::from(order[1]));
            }
        }
        let mut costs = vec![if cur_runnable { 1u32 } else { 0u32 }; order.len()];
        costs[0] = 0;
        let idx = explore::choose(&costs).unwrap_or(0);
        if order[idx] != self.last {
            self.last = order[idx];
            self.consec = 0;
        }
        Some(TaskId::from(order[idx]))
    }

    fn next_u64(&mut self) -> u64 {
        0
    }
}

fn first_resp(out: &sut::ExecOut) -> Option<Resp> {
    let (r, _) = wire::split_responses(&out.out);
    r.into_iter().next()
}

fn prepare(prog: &Program, opts: SchedOpts) -> Result<Prepared, String> {
    let cfg = SutCfg { item_limit: 1024, policy: prog.policy };
    // initial state, executed once on a scratch world to learn the tokens
    let mut init_reqs: Vec<Vec<u8>> = vec![];
    let ttl = if prog.init == Init::Expired { 1 } else { 0 };
    if prog.init != Init::Absent {
        for k in &prog.keys {
            init_reqs.push(Req::store(op::SET, k, b"older", 7, ttl, 0).bytes());
            init_reqs.push(Req::store(op::SET, k, &prog.init_value, 7, ttl, 0).bytes());
        }
    }
    // run under the controlled scheduler so that a self-deadlock is detected, not hung on
    let toks: Arc<Mutex<Vec<Option<u64>>>> = Arc::new(Mutex::new(vec![]));
    {
        let toks2 = toks.clone();
        let reqs = init_reqs.clone();
        sut::IN_SCHED.with(|c| c.set(true));
        let r = sut::catch(std::panic::AssertUnwindSafe(move || {
            let runner = shuttle::Runner::new(DfsSched { started: false, single: true, last: usize::MAX, consec: 0 }, shuttle_config(20_000));
            runner.run(move || {
                let scratch = World::new(cfg);
                let mut c = scratch.conn();
                let mut v = vec![];
                for r in &reqs {
                    let out = c.exec(r);
                    v.push(first_resp(&out).map(|x| x.cas));
                }
                *toks2.lock().unwrap() = v;
            });
        }));
        sut::IN_SCHED.with(|c| c.set(false));
        if let Err(msg) = r {
            return Err(msg);
        }
    }
    let toks = toks.lock().unwrap().clone();
    let mut stale: HashMap<Vec<u8>, u64> = HashMap::new();
    let mut cur: HashMap<Vec<u8>, u64> = HashMap::new();
    for (i, t) in toks.iter().enumerate() {
        let t = match t {
            Some(t) => *t,
            None => return Err("initial store not answered".into()),
        };
        let k = prog.keys[i / 2].clone();
        if i % 2 == 0 {
            stale.insert(k, t);
        } else {
            cur.insert(k, t);
        }
    }
    let clock_after_init = if prog.init == Init::Expired { 1 } else { 0 };
    let mut init_state = LState::default();
    for k in &prog.keys {
        let lk = match prog.init {
            Init::Absent => LKey { item: None, tomb: false },
            Init::Present => LKey {
                item: Some(LItem { value: prog.init_value.clone(), flags: 7, tok: cur[k] }),
                tomb: false,
            },
            Init::Expired => LKey { item: None, tomb: true },
        };
        init_state.keys.insert(k.clone(), lk);
    }
    let mut store_sizes = 0u64;
    // largest value an append/prepend of this program can write: the largest base plus every operand
    let base_max = prog
        .clients
        .iter()
        .flatten()
        .filter_map(|c| match c {
            Cmd::Store { value, .. } => Some(value.len()),
            _ => None,
        })
        .chain(std::iter::once(prog.init_value.len().max(20)))
        .max()
        .unwrap_or(0) as u64;
    let concat_max: u64 = base_max
        + prog
            .clients
            .iter()
            .flatten()
            .filter_map(|c| match c {
                Cmd::Concat { value, .. } => Some(value.len() as u64),
                _ => None,
            })
            .sum::<u64>();
    let clients = prog
        .clients
        .iter()
        .enumerate()
        .map(|(ci, ops)| {
            ops.iter()
                .enumerate()
                .map(|(oi, cmd)| {
                    let cas = match (cmd.cas_arg(), cmd.key()) {
                        (Some(CasArg::Zero), _) | (None, _) => 0,
                        (Some(CasArg::Current), Some(k)) => cur.get(k).copied().unwrap_or(0x77),
                        (Some(CasArg::Stale1), Some(k)) | (Some(CasArg::Stale2), Some(k)) => {
                            stale.get(k).copied().unwrap_or(0x55)
                        }
                        (Some(CasArg::CurrentPlus1), Some(k)) => cur.get(k).copied().unwrap_or(0x77) + 1,
                        (Some(CasArg::Max), _) => u64::MAX,
                        (Some(CasArg::Arb(x)), _) => x,
                        _ => 0,
                    };
                    match cmd {
                        Cmd::Store { value, .. } => store_sizes += 24 + value.len() as u64,
                        Cmd::Concat { .. } => store_sizes += 24 + concat_max,
                        Cmd::Delta { .. } => store_sizes += 24 + 20,
                        _ => {}
                    }
                    let opaque = 0x1000 * (ci as u32 + 1) + oi as u32;
                    (cmd.to_req(cas, opaque).expect("concurrent alphabets have no ticks").bytes(), cas)
                })
                .collect()
        })
        .collect();
    let mut init_tokens: Vec<(Vec<u8>, u64)> = vec![];
    for (k, t) in stale.iter().chain(cur.iter()) {
        init_tokens.push((k.clone(), *t));
    }
    Ok(Prepared { prog: prog.clone(), cfg, init_reqs, clock_after_init, clients, init_state, init_tokens, opts, store_sizes })
}

/// One controlled execution (runs inside shuttle).
fn body(p: &Arc<Prepared>) {
    let world = World::new(p.cfg);
    let mut c0 = world.conn();
    for r in &p.init_reqs {
        c0.exec(r);
    }
    world.clock.set(p.clock_after_init);
    let drift0: i128 = match world.usage() {
        Some(u) => u as i64 as i128 - world.dump().iter().map(|d| d.size() as i128).sum::<i128>(),
        None => 0,
    };
    let log: Arc<Mutex<Vec<OpObs>>> = Arc::new(Mutex::new(vec![]));
    let stamp = Arc::new(AtomicU64::new(1));
    let mut handles = vec![];
    for (ci, ops) in p.clients.iter().enumerate() {
        let mut conn = world.conn();
        let ops = ops.clone();
        let log = log.clone();
        let stamp = stamp.clone();
        handles.push(shuttle::thread::spawn(move || {
            for (oi, (bytes, cas)) in ops.iter().enumerate() {
                let call = stamp.fetch_add(1, Ordering::SeqCst);
                let out = conn.exec(bytes);
                let ret = stamp.fetch_add(1, Ordering::SeqCst);
                let resp = first_resp(&out);
                log.lock().unwrap().push(OpObs { client: ci, index: oi, call, ret, cas: *cas, resp, panic: out.panic.clone() });
                if out.panic.is_some() {
                    break;
                }
            }
        }));
    }
    for h in handles {
        let _ = h.join();
    }
    // at rest: what is stored, then what a client sees
    let dump_at_rest = world.dump();
    let drift1: i128 = match world.usage() {
        Some(u) => u as i64 as i128 - dump_at_rest.iter().map(|d| d.size() as i128).sum::<i128>(),
        None => 0,
    };
    // C14: whatever the race did to the accounting, stores issued afterwards one at a time must
    // keep the sequential bound (content <= L + the record just written)
    let mut follow_up: Option<String> = None;
    if p.opts.c14 {
        if let Policy::Random(l) = p.cfg.policy {
            // the victims of these sequential stores are not explored (first entry every time): the
            // bound must hold whichever victim is taken, and the race is what is being enumerated
            sut::FIXED_CHOICES.with(|c| c.set(true));
            let n = ((l + 64) / 64 + 3).min(40) as u8;
            for i in 0..n {
                let key = [b'f', b'0' + i];
                let out = c0.exec(&Req::store(op::SET, &key, &[b'F'; 40], 0, 0, 0).opaque(0xf0 + i as u32).bytes());
                if out.panic.is_some() {
                    sut::FIXED_CHOICES.with(|c| c.set(false));
                    break;
                }
                let sum: u64 = world.dump().iter().map(|d| d.size()).sum();
                if i + 1 == n {
                    sut::FIXED_CHOICES.with(|c| c.set(false));
                }
                if sum > l + 64 && follow_up.is_none() {
                    follow_up = Some(format!(
                        "after the concurrent phase, sequential store #{} of a 64-byte record leaves {} bytes stored > limit {} + 64",
                        i + 1,
                        sum,
                        l
                    ));
                }
            }
        }
    }
    // C05: time passes after the race; whatever order the race took, a record past its own
    // timestamp + TTL is never returned
    if p.opts.advance_after > 0 {
        world.clock.advance(p.opts.advance_after);
        let now = world.clock.now();
        for k in &p.prog.keys {
            let rec = dump_at_rest.iter().find(|d| &d.key == k).cloned();
            let out = c0.exec(&Req::get(op::GET, k).opaque(0xf2).bytes());
            if let (Some(d), Some(r)) = (rec, first_resp(&out)) {
                if r.status == 0 && d.ttl != 0 && d.ts + d.ttl as u64 <= now && follow_up.is_none() {
                    follow_up = Some(format!(
                        "after the concurrent phase the clock moved to {}: get {} returned {} although the record was stored at {} with TTL {}",
                        now,
                        wire::show(k),
                        r.short(),
                        d.ts,
                        d.ttl
                    ));
                }
            }
        }
    }
    let mut finals: Vec<(Vec<u8>, Option<Resp>)> = vec![];
    for k in &p.prog.keys {
        let out = c0.exec(&Req::get(op::GET, k).opaque(0xf1).bytes());
        finals.push((k.clone(), first_resp(&out)));
    }
    let dump = world.dump();
    let mut ops = log.lock().unwrap().clone();
    ops.sort_by_key(|o| (o.client, o.index));
    let res = evaluate(p, &ops, &finals, &dump_at_rest, &dump, drift1 - drift0, follow_up);
    LAST.with(|l| *l.borrow_mut() = Some(res));
}

fn evaluate(
    p: &Prepared,
    ops: &[OpObs],
    finals: &[(Vec<u8>, Option<Resp>)],
    dump_at_rest: &[DumpItem],
    dump: &[DumpItem],
    drift_change: i128,
    follow_up: Option<String>,
) -> ExecResult {
    // cache key: responses + precedence relation + final content
    let mut h = DefaultHasher::new();
    for o in ops {
        (o.client, o.index, &o.resp, &o.panic).hash(&mut h);
    }
    for a in ops {
        for b in ops {
            (a.ret < b.call).hash(&mut h);
        }
    }
    finals.hash(&mut h);
    for d in dump_at_rest.iter().chain(dump.iter()) {
        (&d.key, &d.value, d.flags, d.cas).hash(&mut h);
    }
    dump_at_rest.len().hash(&mut h);
    drift_change.hash(&mut h);
    follow_up.hash(&mut h);
    let key = h.finish();
    if let Some(v) = VERDICTS.with(|m| m.borrow().get(&key).cloned()) {
        return ExecResult { viol: v, outcome_hash: key };
    }
    let mut viol: Option<(&'static str, String)> = None;
    let show_ops = |ops: &[OpObs]| -> String {
        ops.iter()
            .map(|o| {
                let cmd = &p.prog.clients[o.client][o.index];
                format!(
                    "c{}.{} {} [{}..{}] -> {}",
                    o.client,
                    o.index,
                    cmd.short(),
                    o.call,
                    o.ret,
                    match (&o.resp, &o.panic) {
                        (_, Some(pn)) => format!("PANIC {}", pn),
                        (Some(r), _) => r.short(),
                        (None, _) => "(silent)".to_string(),
                    }
                )
            })
            .collect::<Vec<_>>()
            .join(" | ")
    };
    let total_ops: usize = p.prog.clients.iter().map(|c| c.len()).sum();
    if let Some(o) = ops.iter().find(|o| o.panic.is_some()) {
        viol = Some(("no-panic", format!("{} ; ops: {}", o.panic.clone().unwrap(), show_ops(ops))));
    } else if ops.len() != total_ops {
        viol = Some(("no-panic", format!("only {} of {} operations completed", ops.len(), total_ops)));
    }
    if viol.is_none() && p.opts.check_lin {
        let cmds: Vec<&Cmd> = ops.iter().map(|o| &p.prog.clients[o.client][o.index]).collect();
        if linearizable(&p.init_state, &cmds, ops, finals).is_none() {
            let fin: Vec<String> = finals
                .iter()
                .map(|(k, r)| format!("{}={}", wire::show(k), r.as_ref().map(|x| x.short()).unwrap_or("(none)".into())))
                .collect();
            viol = Some((
                "linearizable",
                format!(
                    "no sequential order explains: {} ; final {} ; stored {:?}",
                    show_ops(ops),
                    fin.join(", "),
                    dump.iter().map(|d| format!("{}={} cas={}", wire::show(&d.key), wire::show(&d.value), d.cas)).collect::<Vec<_>>()
                ),
            ));
        }
    }
    if viol.is_none() && p.opts.check_lin {
        // C02/C03: every successful mutation gives the item a CAS it has not carried before
        let mut seen: HashMap<(Vec<u8>, u64), usize> = HashMap::new();
        // ... nor one that an earlier version of the key carried before the phase began (a client may
        // still hold it): the generator never goes back, whatever a flush or a delete did in between
        for (k, t) in &p.init_tokens {
            seen.insert((k.clone(), *t), usize::MAX);
        }
        // a successful mutation that carried a CAS is outside the claim when the key may have been
        // absent (the store takes over a client-derived number then); in a program that starts from a
        // present key and contains no delete and no flush the key is there throughout, the CAS matched
        // a live item, and the new token is the generator's like any other
        let always_present = matches!(p.prog.init, Init::Present)
            && p.prog.policy == Policy::None
            && !p.prog.clients.iter().flatten().any(|c| matches!(c, Cmd::Delete { .. } | Cmd::Flush { .. }));
        for (i, o) in ops.iter().enumerate() {
            let cmd = &p.prog.clients[o.client][o.index];
            let mutating = matches!(cmd, Cmd::Store { .. } | Cmd::Concat { .. } | Cmd::Delta { .. });
            if let (true, Some(r), Some(k)) = (mutating, &o.resp, cmd.key()) {
                if r.status == 0 && (o.cas == 0 || always_present) {
                    if let Some(j) = seen.insert((k.to_vec(), r.cas), i) {
                        viol = Some((
                            "token-duplicated",
                            if j == usize::MAX {
                                format!("op #{} was acknowledged with CAS {}, which a version of this key stored before the concurrent phase already carried: {}", i, r.cas, show_ops(ops))
                            } else {
                                format!("two acknowledged mutations of one key carry the same CAS {}: ops #{} and #{} of {}", r.cas, j, i, show_ops(ops))
                            },
                        ));
                        break;
                    }
                }
            }
        }
    }
    if viol.is_none() && p.opts.c14 {
        if let Policy::Random(l) = p.cfg.policy {
            let sum: u64 = dump_at_rest.iter().map(|d| d.size()).sum();
            if sum > l + p.store_sizes {
                viol = Some((
                    "over-limit",
                    format!(
                        "at rest the stored records total {} bytes > limit {} + {} (one record per concurrent store); ops: {}",
                        sum,
                        l,
                        p.store_sizes,
                        show_ops(ops)
                    ),
                ));
            }
        }
    }
    if viol.is_none() {
        if let Some(f) = &follow_up {
            let clause = if p.opts.advance_after > 0 { "expired-visible-after-race" } else { p.opts.c14_clause };
            viol = Some((clause, format!("{} ; ops: {}", f, show_ops(ops))));
        }
    }
    if viol.is_none() && p.opts.c15 && drift_change != 0 {
        // too much accounted (bytes of removed records still counted) and too little (bytes of live
        // records not counted) are different defects: the sign is part of the finding's identity
        viol = Some((
            if drift_change > 0 { "usage-overcount-concurrent" } else { "usage-undercount-concurrent" },
            format!(
                "accounted usage minus stored bytes changed by {} across the concurrent phase although every command of the program accounts exactly when run alone; ops: {}",
                drift_change,
                show_ops(ops)
            ),
        ));
    }
    VERDICTS.with(|m| m.borrow_mut().insert(key, viol.clone()));
    ExecResult { viol, outcome_hash: key }
}

fn shuttle_config(max_steps: usize) -> shuttle::Config {
    let mut c = shuttle::Config::new();
    c.failure_persistence = shuttle::FailurePersistence::None;
    c.max_steps = shuttle::MaxSteps::FailAfter(max_steps);
    c.silence_warnings = true;
    c.stack_size = 0x20000;
    c
}

/// Must be called once per OS thread before exploring: lets shuttle install its panic hook, then
/// puts the quiet one back on top.
pub fn warm_up() {
    let r = shuttle::Runner::new(DfsSched { started: false, single: true, last: usize::MAX, consec: 0 }, shuttle_config(1000));
    r.run(|| {});
    sut::reinstall_panic_hook();
}

/// Runs one execution with the given choice prefix.  Ok(result, log) or Err(engine failure text).
fn run_once(p: &Arc<Prepared>, prefix: Vec<usize>) -> (Result<ExecResult, String>, explore::Ctx) {
    explore::begin(prefix);
    sut::IN_SCHED.with(|c| c.set(true));
    LAST.with(|l| *l.borrow_mut() = None);
    let p2 = p.clone();
    let max_steps = p.opts.max_steps;
    let r = sut::catch(std::panic::AssertUnwindSafe(move || {
        let runner = shuttle::Runner::new(DfsSched { started: false, single: true, last: usize::MAX, consec: 0 }, shuttle_config(max_steps));
        runner.run(move || body(&p2));
    }));
    sut::IN_SCHED.with(|c| c.set(false));
    let ctx = explore::end();
    let res = match r {
        Ok(()) => match LAST.with(|l| l.borrow_mut().take()) {
            Some(e) => Ok(e),
            None => Err("execution finished without a result".to_string()),
        },
        Err(msg) => Err(msg),
    };
    (res, ctx)
}

pub fn explore_program(prog: &Program, opts: SchedOpts) -> ProgResult {
    let mut out = ProgResult::default();
    let p = match prepare(prog, opts) {
        Ok(p) => Arc::new(p),
        Err(msg) => {
            let clause = if msg.contains("deadlock") {
                "deadlock"
            } else if msg.contains("max_steps") {
                "livelock"
            } else {
                "no-panic"
            };
            out.violation = Some(SchedViol { clause, detail: format!("while establishing the initial state sequentially: {}", msg), choices: vec![], bound: 0 });
            return out;
        }
    };
    VERDICTS.with(|m| m.borrow_mut().clear());
    let mut outcomes: HashSet<u64> = HashSet::new();
    sut::SCHED_POINTS.with(|c| c.set(0));
    for bound in 0..=opts.max_bound {
        if past_deadline() {
            out.capped = true;
            break;
        }
        DRIVER.with(|d| {
            *d.borrow_mut() = Some(Driver {
                dfs: explore::Dfs::new(bound),
                in_flight: false,
                stop: false,
                bound,
                max_execs: opts.max_execs,
                execs_before: out.executions,
                outcomes: HashSet::new(),
                violation: None,
                error: None,
                capped: false,
            })
        });
        sut::IN_SCHED.with(|c| c.set(true));
        loop {
            let p2 = p.clone();
            let max_steps = opts.max_steps;
            let r = sut::catch(std::panic::AssertUnwindSafe(move || {
                let runner = shuttle::Runner::new(DfsSched { started: false, single: false, last: usize::MAX, consec: 0 }, shuttle_config(max_steps));
                runner.run(move || body(&p2));
            }));
            let more = DRIVER.with(|d| {
                let mut b = d.borrow_mut();
                let drv = b.as_mut().unwrap();
                match r {
                    Ok(()) => {
                        drv.finalize(None);
                        false
                    }
                    Err(msg) => {
                        drv.finalize(Some(msg));
                        !drv.stop && drv.dfs.next_prefix().is_some()
                    }
                }
            });
            if !more {
                break;
            }
        }
        sut::IN_SCHED.with(|c| c.set(false));
        let drv = DRIVER.with(|d| d.borrow_mut().take()).unwrap();
        out.executions += drv.dfs.executions;
        out.executions_per_bound.push(drv.dfs.executions);
        out.choice_points += drv.dfs.choice_points;
        out.max_depth = out.max_depth.max(drv.dfs.max_depth);
        outcomes.extend(drv.outcomes.iter().copied());
        if let Some(e) = drv.error {
            out.error = Some(e);
            break;
        }
        out.capped = drv.capped;
        out.violation = drv.violation;
        if out.violation.is_some() || out.capped {
            break;
        }
        out.bound_completed = Some(bound);
        if drv.dfs.pruned_by_bound == 0 {
            out.saturated = true;
            break;
        }
    }
    out.distinct_outcomes = outcomes.len();
    out.sched_points = sut::SCHED_POINTS.with(|c| c.get());
    out
}

/// Re-executes one schedule (choice list) of a program twice and compares.
pub fn replay_schedule(prog: &Program, opts: SchedOpts, choices: &[usize]) -> Result<Option<(String, String)>, String> {
    let p = Arc::new(prepare(prog, opts)?);
    let mut seen: Vec<Option<(String, String)>> = vec![];
    for _ in 0..2 {
        VERDICTS.with(|m| m.borrow_mut().clear());
        let (res, ctx) = run_once(&p, choices.to_vec());
        if let Some(d) = ctx.divergence {
            return Err(d);
        }
        let v = match res {
            Ok(e) => e.viol.map(|(c, d)| (c.to_string(), d)),
            Err(msg) => Some((
                if msg.contains("deadlock") { "deadlock".to_string() } else { "engine".to_string() },
                msg,
            )),
        };
        seen.push(v);
    }
    if seen[0] != seen[1] {
        return Err("two replays of the same schedule differ".into());
    }
    Ok(seen.remove(0))
}
