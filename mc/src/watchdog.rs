//! Watchdog: a worker that does not make progress for `LIMIT_S` seconds is reported as a violation
//! ("command did not return") and the process exits 1 - a change that makes the code under test
//! block or spin outside the controlled scheduler must not hang the check.

use std::sync::atomic::{AtomicU64, Ordering};
use std::sync::{Arc, Mutex, OnceLock};
use std::time::Instant;

pub const LIMIT_S: u64 = 30;

struct Slot {
    beat_ms: AtomicU64,
    desc: Mutex<String>,
    active: AtomicU64,
}

static SLOTS: Mutex<Vec<Arc<Slot>>> = Mutex::new(Vec::new());
static START: OnceLock<Instant> = OnceLock::new();
static PROP: Mutex<String> = Mutex::new(String::new());

thread_local! {
    static MY: Arc<Slot> = {
        let s = Arc::new(Slot { beat_ms: AtomicU64::new(0), desc: Mutex::new(String::new()), active: AtomicU64::new(0) });
        SLOTS.lock().unwrap().push(s.clone());
        s
    };
}

fn now_ms() -> u64 {
    START.get_or_init(Instant::now).elapsed().as_millis() as u64
}

/// Declares what this worker is about to execute (coarse granularity).
pub fn working_on(desc: String) {
    MY.with(|s| {
        *s.desc.lock().unwrap() = desc;
        s.beat_ms.store(now_ms(), Ordering::Relaxed);
        s.active.store(1, Ordering::Relaxed);
    });
}

/// Cheap progress signal (fine granularity).
pub fn beat() {
    MY.with(|s| s.beat_ms.store(now_ms(), Ordering::Relaxed));
}

/// What the calling worker declared and whether it is being watched.
pub fn current() -> (String, bool) {
    MY.with(|s| (s.desc.lock().unwrap().clone(), s.active.load(Ordering::Relaxed) == 1))
}

pub fn idle() {
    MY.with(|s| s.active.store(0, Ordering::Relaxed));
}

pub fn start(property: &str) {
    *PROP.lock().unwrap() = property.to_string();
    let _ = now_ms();
    std::thread::spawn(|| loop {
        std::thread::sleep(std::time::Duration::from_millis(500));
        let now = now_ms();
        let slots: Vec<Arc<Slot>> = SLOTS.lock().unwrap().clone();
        for s in slots {
            if s.active.load(Ordering::Relaxed) == 1 && now.saturating_sub(s.beat_ms.load(Ordering::Relaxed)) > LIMIT_S * 1000 {
                let desc = s.desc.lock().unwrap().clone();
                let prop = PROP.lock().unwrap().clone();
                let dir = crate::report::verif_dir().join("replays");
                let _ = std::fs::create_dir_all(&dir);
                let path = dir.join(format!("{}-hang.json", prop));
                let body = serde_json::json!({
                    "engine": "watchdog",
                    "property": prop,
                    "signature": "did-not-return",
                    "what": format!("no progress for {} s while executing: {}", LIMIT_S, desc),
                });
                let _ = std::fs::write(&path, serde_json::to_string_pretty(&body).unwrap());
                println!("VIOLATION property={} replay={}", prop, path.display());
                println!("  what: a command did not return within {} s (deadlock or endless loop outside the controlled scheduler) while executing: {}", LIMIT_S, desc);
                std::process::exit(1);
            }
        }
    });
}
