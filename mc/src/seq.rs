//! E2 `seq`: explicit-state breadth-first exploration of command histories.
//! Every transition executes the real decode -> handle -> encode path; the RefModel runs in
//! lock-step; a state is kept iff its canonical fingerprint is new.

#![allow(dead_code)]

use crate::cmd::Cmd;
use crate::explore;
use crate::model::{owners, Evict, KeyState, Model, Observed, Viol, INF};
use crate::model_step::StepCtx;
use crate::sut::{Conn, DumpItem, Policy, SutCfg, World};
use crate::wire;
use std::collections::hash_map::DefaultHasher;
use std::collections::{BTreeMap, HashSet};
use std::hash::{Hash, Hasher};
use std::sync::atomic::{AtomicBool, AtomicU64, AtomicUsize, Ordering};
use std::sync::Mutex;
use std::time::Instant;

#[derive(Clone)]
pub struct SeqCfg {
    pub name: String,
    pub prop: &'static str,
    pub alphabet: Vec<Cmd>,
    pub depth: usize,
    pub sut: SutCfg,
    pub evict: Evict,
    pub normalise: bool,
    pub state_cap: usize,
    pub wall_cap_s: f64,
    /// check the accounting counter after every command (C15)
    pub check_usage: bool,
    /// initial clock value (stores at a non-zero time)
    pub start_time: u64,
    /// opaque values to cycle through by alphabet index (empty: one distinct opaque per command)
    pub opaques: Vec<u32>,
    /// alphabet indices i and i + opaque_mod denote the loud/quiet twins of one command and use
    /// the same opaque (0 = off)
    pub opaque_mod: usize,
    /// vbucket ids to put into the requests (by command index); empty = 0 everywhere
    pub vbuckets: Vec<u16>,
    /// commands with an alphabet index >= this are executed by a second OS thread (0 = off)
    pub alt_thread_from: usize,
    /// do not merge histories that reach the same (dump, model) state
    pub no_dedup: bool,
    /// commands from this alphabet index on are sent over a second connection of the same server
    /// (its own handler and decoder; strictly one command at a time): which connection a command
    /// arrives on is the client's business, not the store's (0 = one connection)
    pub alt_conn_from: usize,
    /// None: every answer sequence to the victim choices of a step is enumerated.  Some(d): the
    /// first record in iteration order is the default victim and a step may depart from it at most
    /// d times (deviation bound) - for configurations whose steps evict a dozen records in a row,
    /// where the full tree is factorial.  Said in the configuration's name.
    pub victim_deviations: Option<u32>,
    /// non-initial start states: histories (alphabet indices, no victim choices) whose every step is
    /// judged once and from whose end states the exploration starts as well as from the empty store
    pub roots: Vec<Vec<u16>>,
}

#[derive(Clone, Debug, PartialEq, Eq, Hash, PartialOrd, Ord)]
pub struct Elem {
    pub cmd: u16,
    pub choices: Vec<u8>,
}
pub type Hist = Vec<Elem>;

pub struct Applied {
    pub applicable: bool,
    pub viols: Vec<Viol>,
    /// number of alternatives at each data choice point met (victim selection)
    pub choice_ns: Vec<usize>,
    pub state_class: &'static str,
    pub pruned: bool,
    pub out_bytes: Vec<u8>,
    pub req_bytes: Vec<u8>,
    pub divergence: Option<String>,
    /// seconds the clock was advanced (tick commands)
    pub tick_secs: Option<u64>,
}

pub struct Runner<'a> {
    pub cfg: &'a SeqCfg,
    pub world: World,
    pub conn: Conn,
    pub model: Model,
    /// the second worker thread of this runner (configurations with `alt_thread_from`): it lives as
    /// long as the runner, like a server's worker thread
    helper: Option<Helper>,
    /// the second connection (configurations with `alt_conn_from`)
    conn2: Option<Conn>,
    /// commands applied so far (breadcrumb for a process abort)
    trail: Vec<(u16, Vec<u8>)>,
}

/// One request to the helper thread: (address of the runner's Conn, request bytes, choice prefix).
type HelperJob = (usize, Vec<u8>, Vec<usize>);

struct Helper {
    tx: std::sync::mpsc::Sender<HelperJob>,
    rx: std::sync::mpsc::Receiver<(crate::sut::ExecOut, explore::Ctx)>,
    _handle: std::thread::JoinHandle<()>,
}

impl Helper {
    fn start() -> Helper {
        let (tx, jobs) = std::sync::mpsc::channel::<HelperJob>();
        let (res_tx, rx) = std::sync::mpsc::channel();
        let handle = std::thread::spawn(move || {
            crate::sut::set_quiet(true);
            crate::sut::init_hooks();
            while let Ok((conn_addr, bytes, prefix)) = jobs.recv() {
                // SAFETY: the address is that of the owning runner's `conn`; the runner's thread is
                // blocked on `rx.recv()` until this job is answered, so the access is exclusive,
                // and the runner outlives the job.
                let conn: &mut Conn = unsafe { &mut *(conn_addr as *mut Conn) };
                explore::begin(prefix);
                let out = conn.exec(&bytes);
                let ctx = explore::end();
                if res_tx.send((out, ctx)).is_err() {
                    break;
                }
            }
        });
        Helper { tx, rx, _handle: handle }
    }
}

pub fn opaque_for(idx: usize) -> u32 {
    0xabad_0000u32 + idx as u32 * 0x101 + 1
}

fn state_class(model: &Model, key: Option<&[u8]>) -> &'static str {
    let key = match key {
        Some(k) => k,
        None => return "-",
    };
    match &model.key_info(key).st {
        KeyState::Absent(_) => "absent",
        KeyState::Tomb(_) => "expired",
        KeyState::Item(it) => {
            if model.now >= it.upper {
                "expired"
            } else if model.now < it.lower {
                "live"
            } else {
                "may"
            }
        }
    }
}

impl<'a> Runner<'a> {
    pub fn new(cfg: &'a SeqCfg) -> Runner<'a> {
        let world = World::new(cfg.sut);
        world.clock.set(cfg.start_time);
        let conn = world.conn();
        let mem_limit = match cfg.sut.policy {
            Policy::Random(l) => Some(l),
            Policy::None => None,
        };
        let mut model = Model::new(cfg.evict, mem_limit);
        model.now = cfg.start_time;
        model.item_limit = Some(cfg.sut.item_limit);
        let helper = if cfg.alt_thread_from > 0 { Some(Helper::start()) } else { None };
        let conn2 = if cfg.alt_conn_from > 0 { Some(world.conn()) } else { None };
        Runner { cfg, world, conn, model, helper, conn2, trail: vec![] }
    }

    pub fn apply(&mut self, idx: usize, choices: &[u8]) -> Applied {
        let cmd = &self.cfg.alphabet[idx];
        let mut ap = Applied {
            applicable: true,
            viols: vec![],
            choice_ns: vec![],
            state_class: "-",
            pruned: false,
            out_bytes: vec![],
            req_bytes: vec![],
            divergence: None,
            tick_secs: None,
        };
        if crate::sut::crumbs_on() {
            self.trail.push((idx as u16, choices.to_vec()));
        }
        self.model.settle();
        ap.state_class = state_class(&self.model, cmd.key());
        if let Cmd::Tick(t) = cmd {
            match self.model.resolve_tick(*t) {
                None => {
                    ap.applicable = false;
                    return ap;
                }
                Some(d) => {
                    if d == 0 {
                        ap.applicable = false;
                        return ap;
                    }
                    self.world.clock.advance(d);
                    ap.tick_secs = Some(d);
                    let obs = Observed::default();
                    let fixed = Cmd::Tick(crate::cmd::Tick::Plus(d));
                    let ctx = StepCtx { cmd: &fixed, cas: 0, opaque: 0, obs: &obs, before: &[], after: &[], evicting: false };
                    ap.viols = self.model.step(&ctx);
                    return ap;
                }
            }
        }
        let cas = match cmd.cas_arg() {
            Some(a) => match self.model.resolve_cas(cmd.key().unwrap(), a) {
                Some(c) => c,
                None => {
                    ap.applicable = false;
                    return ap;
                }
            },
            None => 0,
        };
        let oi = if self.cfg.opaque_mod > 0 { idx % self.cfg.opaque_mod } else { idx };
        let opaque = if self.cfg.opaques.is_empty() { opaque_for(oi) } else { self.cfg.opaques[oi % self.cfg.opaques.len()] };
        let mut req = cmd.to_req(cas, opaque).unwrap();
        if !self.cfg.vbuckets.is_empty() {
            // the vbucket id is a reserved request field: whatever it holds, nothing may change
            req.vbucket = self.cfg.vbuckets[idx % self.cfg.vbuckets.len()];
        }
        let bytes = req.bytes();
        let before = self.world.dump();
        let usage_before = self.world.usage();
        // commands from index `alt_thread_from` on are executed by another OS thread (strictly one
        // after the other: no race, only the identity of the executing thread differs)
        let on_helper = self.cfg.alt_thread_from > 0 && idx >= self.cfg.alt_thread_from;
        let prefix: Vec<usize> = choices.iter().map(|c| *c as usize).collect();
        if crate::sut::crumbs_on() {
            let (cfg, trail) = (self.cfg, &self.trail);
            crate::sut::set_seq_crumb(|s| {
                use std::fmt::Write;
                let _ = write!(s, "{}|{}|", cfg.prop, cfg.name);
                for (i, (c, ch)) in trail.iter().enumerate() {
                    let _ = write!(s, "{}{}:", if i > 0 { "," } else { "" }, c);
                    for (j, x) in ch.iter().enumerate() {
                        let _ = write!(s, "{}{}", if j > 0 { "." } else { "" }, x);
                    }
                }
            });
        }
        let (out, ctx) = if on_helper {
            let h = self.helper.as_ref().expect("helper thread");
            h.tx.send((&mut self.conn as *mut Conn as usize, bytes.clone(), prefix)).expect("helper thread alive");
            h.rx.recv().expect("helper thread answered")
        } else if self.cfg.alt_conn_from > 0 && idx >= self.cfg.alt_conn_from {
            explore::begin(prefix);
            let out = self.conn2.as_mut().expect("second connection").exec(&bytes);
            (out, explore::end())
        } else {
            explore::begin(prefix);
            let out = self.conn.exec(&bytes);
            (out, explore::end())
        };
        ap.divergence = ctx.divergence.clone();
        ap.choice_ns = ctx.log.iter().map(|p| p.n).collect();
        let after = self.world.dump();
        let (resps, residue) = wire::split_responses(&out.out);
        let obs = Observed { resps, residue, panic: out.panic.clone(), decode_err: out.decode_err.clone() };
        let sctx = StepCtx { cmd, cas, opaque, obs: &obs, before: &before, after: &after, evicting: !ap.choice_ns.is_empty() };
        ap.viols = self.model.step(&sctx);
        // a live item evicted without pressure: the recorded defect is that the *counter* had drifted
        // above the limit; an eviction while even the counter is far below the limit is something else
        if let (Some(ub), Policy::Random(limit)) = (usage_before, self.cfg.sut.policy) {
            let attempted: u64 = 24 + bytes.len() as u64;
            if ub < (1u64 << 63) && ub.saturating_add(attempted) <= limit {
                for vl in ap.viols.iter_mut().filter(|v| v.clause == "live-item-lost") {
                    vl.tag = "+counter-below-limit".to_string();
                }
            }
        }
        if out.panic.is_some() || out.decode_err.is_some() {
            ap.pruned = true;
        }
        if self.cfg.check_usage {
            if let (Some(ub), Some(ua)) = (usage_before, self.world.usage()) {
                let sb: u64 = before.iter().map(|d| d.size()).sum();
                let sa: u64 = after.iter().map(|d| d.size()).sum();
                let db = ub as i128 - sb as i128;
                let da = ua.wrapping_sub(0) as i128 - sa as i128;
                // the counter is a u64 that may have wrapped below zero
                let norm = |x: i128, raw: u64| -> i128 {
                    if raw > (1u64 << 63) {
                        x - (1i128 << 64)
                    } else {
                        x
                    }
                };
                let db = norm(db, ub);
                let da = norm(da, ua);
                // a step that brings the accounting back to exactly the stored bytes repairs an
                // earlier (reported) drift: it is what the property asks for, not a violation
                if da != db && da != 0 {
                    let ok = obs.resps.first().map(|r| r.status == 0).unwrap_or(true);
                    // classify the amount: which record's size went unaccounted
                    let key = cmd.key().map(|k| k.to_vec());
                    let old_size = key.as_ref().and_then(|k| before.iter().find(|d| &d.key == k)).map(|d| d.size() as i128).unwrap_or(0);
                    let new_size = key.as_ref().and_then(|k| after.iter().find(|d| &d.key == k)).map(|d| d.size() as i128).unwrap_or(0);
                    let attempted = 24 + match cmd {
                        Cmd::Store { value, .. } => value.len() as i128,
                        Cmd::Concat { value, .. } => value.len() as i128 + old_size.max(24) - 24,
                        _ => -24,
                    };
                    let removed: i128 = before
                        .iter()
                        .filter(|d| !after.iter().any(|a| a.key == d.key))
                        .map(|d| d.size() as i128)
                        .sum();
                    let delta = da - db;
                    // the eviction loop ran in this command (victim choices were taken): its stale
                    // subtraction is one defect; arithmetic of a plain store/removal is another
                    let limit = match self.cfg.sut.policy {
                        Policy::Random(l) => l,
                        Policy::None => u64::MAX,
                    };
                    let storeish = matches!(cmd, Cmd::Store { .. } | Cmd::Concat { .. } | Cmd::Delta { .. });
                    let evicting = !ap.choice_ns.is_empty() || (storeish && ub > limit);
                    // the counter arithmetic of a command that ran the eviction loop is exact: what it
                    // attempted to store is added, every victim's size is subtracted (the replaced
                    // record's only if it was itself the victim), or the loop met an empty store and
                    // restarted the counter at the attempted record.  The recorded defects never
                    // leave that set; anything else is a different fault of the loop
                    let explained = {
                        let xs: Vec<i128> = if ok && new_size > 0 { vec![new_size, attempted] } else { vec![attempted, 0] };
                        let others_removed: i128 = before
                            .iter()
                            .filter(|d| Some(&d.key) != key.as_ref() && !after.iter().any(|a| a.key == d.key))
                            .map(|d| d.size() as i128)
                            .sum();
                        let uai = norm(ua as i128, ua);
                        let ubi = norm(ub as i128, ub);
                        // the restart is for a store that was emptied: every other record is gone
                        let others_left = after.iter().filter(|d| Some(&d.key) != key.as_ref()).count();
                        xs.iter().any(|x| uai == ubi + x - others_removed || uai == ubi + x - others_removed - old_size || (others_left == 0 && uai == *x))
                    };
                    let tag = if evicting && !explained {
                        "@eviction-loop-unexplained"
                    } else if evicting {
                        "@eviction-loop"
                    } else if removed > 0 && delta == removed {
                        "+removed-records"
                    } else if delta == old_size && old_size > 0 && ok {
                        "+old-record"
                    } else if !ok && delta > 0 && (delta == attempted || delta == new_size) {
                        "+rejected-record"
                    } else if delta > 0 {
                        "+other"
                    } else {
                        "-other"
                    };
                    ap.viols.push(Viol {
                        tag: tag.to_string(),
                        clause: "usage-drift",
                        detail: format!(
                            "{} ({}) moved accounted-minus-stored from {} to {} (accounted {} stored {})",
                            cmd.short(),
                            if ok { "ok" } else { "failed" },
                            db,
                            da,
                            ua as i64,
                            sa
                        ),
                    });
                }
            }
        }
        ap.out_bytes = out.out;
        ap.req_bytes = bytes;
        ap
    }

    pub fn run_history(&mut self, h: &Hist) -> Result<(), String> {
        for e in h {
            let ap = self.apply(e.cmd as usize, &e.choices);
            if let Some(d) = ap.divergence {
                return Err(d);
            }
            if !ap.applicable {
                return Err(format!("replay divergence: command {} not applicable", e.cmd));
            }
        }
        Ok(())
    }

    /// Canonical fingerprint of (implementation dump, model bookkeeping).
    pub fn fingerprint(&self) -> u128 {
        let dump = self.world.dump();
        let counter = self.world.cas_counter();
        let now = self.model.now;
        let norm = self.cfg.normalise;
        let cap = age_cap(&self.cfg.alphabet);
        let mut h1 = DefaultHasher::new();
        let mut h2 = DefaultHasher::new();
        0x5eedu64.hash(&mut h2);
        let mut feed = |f: &dyn Fn(&mut DefaultHasher)| {
            f(&mut h1);
            f(&mut h2);
        };
        let rel_t = |t: u64| -> u64 {
            if !norm {
                t
            } else if t == INF {
                INF
            } else if t >= now {
                (t - now).min(cap)
            } else {
                // in the past: distance, capped, tagged
                (1u64 << 62) + (now - t).min(cap)
            }
        };
        let rel_c = |c: u64| -> i128 {
            if norm {
                c as i128 - counter as i128
            } else {
                c as i128
            }
        };
        if !norm {
            feed(&|h| (now, counter).hash(h));
        }
        for d in &dump {
            feed(&|h| {
                d.key.hash(h);
                d.value.hash(h);
                d.flags.hash(h);
                d.ttl.hash(h);
                rel_t(d.ts).hash(h);
                rel_c(d.cas).hash(h);
            });
        }
        feed(&|h| 0xffu8.hash(h));
        for (k, ki) in &self.model.keys {
            feed(&|h| {
                k.hash(h);
                match &ki.st {
                    KeyState::Absent(g) => {
                        // the reason only selects the clause name of a later violation
                        (0u8, *g as u8).hash(h);
                    }
                    KeyState::Tomb(w) => (1u8, *w as u8).hash(h),
                    KeyState::Item(it) => {
                        2u8.hash(h);
                        it.value.hash(h);
                        it.flags.hash(h);
                        rel_c(it.tok).hash(h);
                        rel_t(it.lower).hash(h);
                        rel_t(it.upper).hash(h);
                        rel_t(it.own_upper).hash(h);
                        it.ttl_cands.hash(h);
                        rel_t(it.stamp).hash(h);
                        it.exempt.hash(h);
                        let min_keep = if norm { it.tok.min(counter.saturating_sub(1)) } else { 0 };
                        for t in &it.carried {
                            if !norm || *t > min_keep || *t == it.tok {
                                rel_c(*t).hash(h);
                            }
                        }
                    }
                }
                for s in &ki.stale {
                    rel_c(*s).hash(h);
                }
            });
        }
        if let Some(u) = self.world.usage() {
            let s: u64 = dump.iter().map(|d| d.size()).sum();
            feed(&|h| (u.wrapping_sub(s)).hash(h));
        }
        feed(&|h| (self.model.last_written, self.conn.closed).hash(h));
        ((h1.finish() as u128) << 64) | h2.finish() as u128
    }
}

fn age_cap(alphabet: &[Cmd]) -> u64 {
    let mut m = 0u64;
    for c in alphabet {
        match c {
            Cmd::Store { ttl, .. } => m = m.max(*ttl as u64),
            Cmd::Delta { exp, .. } if *exp != 0xffff_ffff => m = m.max(*exp as u64),
            Cmd::Flush { delay: Some(d), .. } => m = m.max(*d as u64),
            _ => {}
        }
    }
    2 * m + 3
}

#[derive(Clone, Debug)]
pub struct Found {
    pub clause: &'static str,
    pub signature: String,
    pub detail: String,
    pub hist: Hist,
    pub hist_text: Vec<String>,
    pub cfg_name: String,
}

#[derive(Default, Debug)]
pub struct SeqReport {
    pub cfg_name: String,
    pub states: u64,
    pub transitions: u64,
    pub executions: u64,
    pub not_applicable: u64,
    pub depth_reached: usize,
    pub frontier_emptied: bool,
    pub capped: Option<String>,
    pub found: Vec<Found>,
    pub foreign: BTreeMap<String, u64>,
    pub foreign_examples: BTreeMap<String, String>,
    pub owned_clause_hits: BTreeMap<String, u64>,
    pub level_states: Vec<u64>,
    pub victim_choice_points: u64,
    pub samples: Vec<Vec<String>>,
    pub distinct_outcomes: u64,
    pub wall_s: f64,
    pub machinery_error: Option<String>,
    /// spanning-tree histories up to a small depth (for binding to the TCP path)
    pub tree: Vec<Hist>,
}

pub fn hist_text(cfg: &SeqCfg, h: &Hist) -> Vec<String> {
    h.iter()
        .map(|e| {
            let c = &cfg.alphabet[e.cmd as usize];
            if e.choices.is_empty() {
                c.short()
            } else {
                format!("{} victims={:?}", c.short(), e.choices)
            }
        })
        .collect()
}

pub fn signature(clause: &str, tag: &str, cmd: &Cmd, state_class: &str) -> String {
    let clause = if tag.is_empty() { clause.to_string() } else { format!("{}{}", clause, tag) };
    let clause = clause.as_str();
    let cas = match cmd.cas_arg() {
        Some(crate::cmd::CasArg::Zero) | None => "cas0",
        Some(crate::cmd::CasArg::Current) => "cas=cur",
        Some(crate::cmd::CasArg::Stale1) | Some(crate::cmd::CasArg::Stale2) => "cas=stale",
        Some(crate::cmd::CasArg::CurrentPlus1) => "cas=cur+1",
        Some(crate::cmd::CasArg::Max) => "cas=max",
        Some(crate::cmd::CasArg::Arb(_)) => "cas=arb",
    };
    // "live" and "may" are model-internal shades of "the item is there"
    let state_class = if state_class == "live" || state_class == "may" { "present" } else { state_class };
    if clause.starts_with("usage-drift") || clause.starts_with("live-item-lost") {
        // identity of an accounting defect: which record went unaccounted, in which command
        return format!("{}|{}", clause, cmd.kind());
    }
    format!("{}|{}|{}|{}", clause, cmd.kind(), state_class, cas)
}

pub fn explore_seq(cfg: &SeqCfg, threads: usize, tree_depth: usize) -> SeqReport {
    let t0 = Instant::now();
    let mut rep = SeqReport { cfg_name: cfg.name.clone(), ..Default::default() };
    const SHARDS: usize = 64;
    let seen: Vec<Mutex<HashSet<u128>>> = (0..SHARDS).map(|_| Mutex::new(HashSet::new())).collect();
    let outcomes: Vec<Mutex<HashSet<u64>>> = (0..SHARDS).map(|_| Mutex::new(HashSet::new())).collect();
    let insert = |fp: u128| -> bool { seen[(fp as usize) % SHARDS].lock().unwrap().insert(fp) };
    {
        let r = Runner::new(cfg);
        insert(r.fingerprint());
    }
    let transitions = AtomicU64::new(0);
    let executions = AtomicU64::new(0);
    let not_app = AtomicU64::new(0);
    let victim_points = AtomicU64::new(0);
    let states = AtomicU64::new(1);
    let found: Mutex<BTreeMap<String, Found>> = Mutex::new(BTreeMap::new());
    let foreign: Mutex<BTreeMap<String, u64>> = Mutex::new(BTreeMap::new());
    let foreign_ex: Mutex<BTreeMap<String, String>> = Mutex::new(BTreeMap::new());
    let owned_hits: Mutex<BTreeMap<String, u64>> = Mutex::new(BTreeMap::new());
    let mach_err: Mutex<Option<String>> = Mutex::new(None);
    let stop = AtomicBool::new(false);
    let record = |nh: &Hist, ci: usize, ap: &Applied| {
        for vl in &ap.viols {
            let own = owners(vl.clause);
            if own.contains(&cfg.prop) {
                *owned_hits.lock().unwrap().entry(vl.clause.to_string()).or_insert(0) += 1;
                let sig = signature(vl.clause, &vl.tag, &cfg.alphabet[ci], ap.state_class);
                let mut f = found.lock().unwrap();
                let better = match f.get(&sig) {
                    None => true,
                    Some(old) => (nh.len(), nh) < (old.hist.len(), &old.hist),
                };
                if better {
                    f.insert(
                        sig.clone(),
                        Found {
                            clause: vl.clause,
                            signature: sig,
                            detail: vl.detail.clone(),
                            hist_text: hist_text(cfg, &nh),
                            hist: nh.clone(),
                            cfg_name: cfg.name.clone(),
                        },
                    );
                }
            } else {
                let owner = own.first().copied().unwrap_or("?");
                *foreign.lock().unwrap().entry(format!("{}:{}", owner, vl.clause)).or_insert(0) += 1;
                let mut fe = foreign_ex.lock().unwrap();
                let k = format!("{}:{}", owner, signature(vl.clause, &vl.tag, &cfg.alphabet[ci], ap.state_class));
                let txt = format!("{}  after [{}]", vl.detail, hist_text(cfg, &nh).join(" ; "));
                let better = fe.get(&k).map(|o| txt.len() < o.len()).unwrap_or(true);
                if better {
                    fe.insert(k, txt);
                }
            }
        }
    };
    let mut frontier: Vec<Hist> = vec![vec![]];
    // non-initial start states: walk each root once, judging every step, then explore from its end
    for root in &cfg.roots {
        crate::watchdog::working_on(format!("[{}] root history of {} commands", cfg.name, root.len()));
        let mut r = Runner::new(cfg);
        let mut h: Hist = vec![];
        let mut ok = true;
        for c in root {
            crate::watchdog::working_on(format!("[{}] root history of {} commands, at command #{}: {}", cfg.name, root.len(), h.len(), cfg.alphabet[*c as usize].short()));
            let ap = r.apply(*c as usize, &[]);
            if !ap.applicable || ap.divergence.is_some() {
                rep.machinery_error = Some(format!("[{}] root history not executable at command {}", cfg.name, h.len()));
                ok = false;
                break;
            }
            // (victim choices inside a root history take the first candidate each time)
            h.push(Elem { cmd: *c, choices: vec![0; ap.choice_ns.len()] });
            transitions.fetch_add(1, Ordering::Relaxed);
            record(&h, *c as usize, &ap);
            if ap.pruned {
                ok = false;
                break;
            }
        }
        crate::watchdog::idle();
        if rep.machinery_error.is_some() {
            return rep;
        }
        if ok && (cfg.no_dedup || insert(r.fingerprint())) {
            states.fetch_add(1, Ordering::Relaxed);
            frontier.push(h);
        }
    }
    rep.level_states.push(frontier.len() as u64);
    rep.tree.push(vec![]);
    let mut depth = 0usize;
    let mut last_new = frontier.len() as u64;
    while !frontier.is_empty() && depth < cfg.depth {
        let next: Mutex<Vec<Hist>> = Mutex::new(Vec::new());
        let level_new = AtomicU64::new(0);
        let last_level = depth + 1 >= cfg.depth;
        let idx = AtomicUsize::new(0);
        let fr = &frontier;
        std::thread::scope(|s| {
            for _ in 0..threads.max(1) {
                s.spawn(|| {
                    crate::sut::set_quiet(true);
                    let mut local_next: Vec<Hist> = vec![];
                    loop {
                        if stop.load(Ordering::Relaxed) {
                            break;
                        }
                        let i = idx.fetch_add(1, Ordering::Relaxed);
                        if i >= fr.len() {
                            break;
                        }
                        let h = &fr[i];
                        crate::watchdog::working_on(format!("[{}] history [{}] followed by one more command of the alphabet", cfg.name, hist_text(cfg, h).join(" ; ")));
                        for ci in 0..cfg.alphabet.len() {
                            crate::watchdog::beat();
                            // enumerate every answer sequence to the victim choices
                            let mut dfs = explore::Dfs::new(cfg.victim_deviations.unwrap_or(u32::MAX));
                            while let Some(prefix) = dfs.next_prefix() {
                                let mut r = Runner::new(cfg);
                                if let Err(e) = r.run_history(h) {
                                    *mach_err.lock().unwrap() = Some(e);
                                    stop.store(true, Ordering::Relaxed);
                                    break;
                                }
                                executions.fetch_add(1, Ordering::Relaxed);
                                let choices: Vec<u8> = prefix.iter().map(|c| *c as u8).collect();
                                let ap = r.apply(ci, &choices);
                                if !ap.applicable {
                                    not_app.fetch_add(1, Ordering::Relaxed);
                                    break;
                                }
                                if let Some(d) = ap.divergence.clone() {
                                    *mach_err.lock().unwrap() = Some(d);
                                    stop.store(true, Ordering::Relaxed);
                                    break;
                                }
                                transitions.fetch_add(1, Ordering::Relaxed);
                                victim_points.fetch_add(ap.choice_ns.len() as u64, Ordering::Relaxed);
                                // feed the log back to the DFS driver
                                let mut ctx = explore::Ctx::default();
                                let mut cum = 0;
                                for (k, n) in ap.choice_ns.iter().enumerate() {
                                    let chosen = if k < prefix.len() { prefix[k] } else { 0 };
                                    let costs: Vec<u32> = if cfg.victim_deviations.is_some() { (0..*n).map(|a| (a > 0) as u32).collect() } else { vec![0; *n] };
                                    let cost = costs[chosen];
                                    ctx.log.push(explore::Point { n: *n, chosen, costs, cum });
                                    cum += cost;
                                }
                                let full_choices: Vec<u8> = ctx.log.iter().map(|p| p.chosen as u8).collect();
                                if let Err(e) = dfs.finish(ctx) {
                                    *mach_err.lock().unwrap() = Some(e);
                                    stop.store(true, Ordering::Relaxed);
                                    break;
                                }
                                let mut nh = h.clone();
                                nh.push(Elem { cmd: ci as u16, choices: full_choices });
                                {
                                    let mut hh = DefaultHasher::new();
                                    (ci, &ap.out_bytes).hash(&mut hh);
                                    let o = hh.finish();
                                    outcomes[(o as usize) % SHARDS].lock().unwrap().insert(o);
                                }
                                record(&nh, ci, &ap);
                                if ap.pruned {
                                    continue;
                                }
                                let fp = r.fingerprint();
                                // configurations that look for state the fingerprint cannot see (e.g. state
                                // tied to the executing thread) enumerate histories, not states
                                if cfg.no_dedup || insert(fp) {
                                    states.fetch_add(1, Ordering::Relaxed);
                                    level_new.fetch_add(1, Ordering::Relaxed);
                                    // the last level is judged, not expanded: no need to keep it
                                    if !last_level || depth < tree_depth {
                                        local_next.push(nh);
                                    }
                                }
                            }
                        }
                        if (i & 63) == 0 {
                            if t0.elapsed().as_secs_f64() > cfg.wall_cap_s
                                || states.load(Ordering::Relaxed) as usize > cfg.state_cap
                            {
                                stop.store(true, Ordering::Relaxed);
                            }
                        }
                    }
                    crate::watchdog::idle();
                    next.lock().unwrap().extend(local_next);
                });
            }
        });
        if let Some(e) = mach_err.lock().unwrap().clone() {
            rep.machinery_error = Some(e);
            break;
        }
        let mut nx = next.into_inner().unwrap();
        nx.sort();
        if stop.load(Ordering::Relaxed) {
            rep.capped = Some(format!(
                "stopped inside depth {} (wall cap {} s / state cap {}); depths < {} fully explored",
                depth + 1,
                cfg.wall_cap_s,
                cfg.state_cap,
                depth + 1
            ));
            break;
        }
        depth += 1;
        rep.level_states.push(level_new.load(Ordering::Relaxed));
        last_new = level_new.load(Ordering::Relaxed);
        if depth <= tree_depth {
            rep.tree.extend(nx.iter().cloned());
        }
        if rep.samples.len() < 4 {
            if let Some(h) = nx.get(nx.len() / 2) {
                rep.samples.push(hist_text(cfg, h));
            }
        }
        frontier = nx;
    }
    rep.depth_reached = depth;
    rep.frontier_emptied = last_new == 0 && rep.capped.is_none() && rep.machinery_error.is_none();
    rep.states = states.load(Ordering::Relaxed);
    rep.transitions = transitions.load(Ordering::Relaxed);
    rep.executions = executions.load(Ordering::Relaxed);
    rep.not_applicable = not_app.load(Ordering::Relaxed);
    rep.victim_choice_points = victim_points.load(Ordering::Relaxed);
    rep.found = found.into_inner().unwrap().into_values().collect();
    rep.foreign = foreign.into_inner().unwrap();
    rep.foreign_examples = foreign_ex.into_inner().unwrap();
    rep.owned_clause_hits = owned_hits.into_inner().unwrap();
    rep.distinct_outcomes = outcomes.iter().map(|m| m.lock().unwrap().len() as u64).sum();
    rep.wall_s = t0.elapsed().as_secs_f64();
    rep
}

/// Re-executes one history; returns the per-command observations (for replay files).
pub fn replay_history(cfg: &SeqCfg, h: &Hist) -> Result<Vec<String>, String> {
    let mut r = Runner::new(cfg);
    let mut lines = vec![];
    for e in h {
        let cmd = &cfg.alphabet[e.cmd as usize];
        let ap = r.apply(e.cmd as usize, &e.choices);
        if let Some(d) = ap.divergence {
            return Err(d);
        }
        let (resps, residue) = wire::split_responses(&ap.out_bytes);
        let rs: Vec<String> = resps.iter().map(|x| x.short()).collect();
        lines.push(format!(
            "{} -> [{}]{}{}",
            cmd.short(),
            rs.join("; "),
            if residue > 0 { format!(" residue={}", residue) } else { String::new() },
            if ap.viols.is_empty() {
                String::new()
            } else {
                format!("  !! {}", ap.viols.iter().map(|v| format!("{}: {}", v.clause, v.detail)).collect::<Vec<_>>().join(" | "))
            }
        ));
    }
    let dump: Vec<DumpItem> = r.world.dump();
    lines.push(format!("final dump: {:?} cas_counter={} usage={:?}", dump, r.world.cas_counter(), r.world.usage()));
    Ok(lines)
}

/// Binding to the deployed path: replays histories through a real `MemcacheTcpServer` on loopback
/// (E4 world) and compares the response bytes of every command with the in-process run.
/// Returns (histories validated, first mismatch per command kind).
pub fn bind_to_socket(cfg: &SeqCfg, tree: &[Hist], threads: usize) -> (u64, Vec<(String, String)>, Option<String>) {
    use crate::net::{NetCfg, NetWorld};
    let results = crate::check_c09::par_map(tree, threads, |_, h| -> Result<Option<(String, String)>, String> {
        if h.is_empty() {
            return Ok(None);
        }
        let mut r = Runner::new(cfg);
        let w = NetWorld::new(NetCfg { item_limit: cfg.sut.item_limit, policy: cfg.sut.policy, ..Default::default() })?;
        w.clock.set(cfg.start_time);
        let mut c = w.connect()?;
        for (i, e) in h.iter().enumerate() {
            let ap = r.apply(e.cmd as usize, &e.choices);
            if !ap.applicable {
                return Err("replay divergence in binding".into());
            }
            if ap.pruned {
                break; // panics / decode errors are reported by the in-process exploration
            }
            if let Some(d) = ap.tick_secs {
                w.clock.advance(d);
                continue;
            }
            let before = c.got.len();
            explore::begin(e.choices.iter().map(|x| *x as usize).collect());
            let sent = c.step(&w, &ap.req_bytes);
            let _ = explore::end();
            if sent.is_err() {
                return Ok(Some((
                    format!("socket-path-differs|{}", cfg.alphabet[e.cmd as usize].kind()),
                    format!("connection lost at command #{} of [{}]", i, hist_text(cfg, h).join(" ; ")),
                )));
            }
            let got = &c.got[before..];
            if got != &ap.out_bytes[..] {
                let (a, _) = wire::split_responses(&ap.out_bytes);
                let (b, _) = wire::split_responses(got);
                return Ok(Some((
                    format!("socket-path-differs|{}", cfg.alphabet[e.cmd as usize].kind()),
                    format!(
                        "command #{} of [{}]: in-process {:?} / over TCP {:?}",
                        i,
                        hist_text(cfg, h).join(" ; "),
                        a.iter().map(|x| x.short()).collect::<Vec<_>>(),
                        b.iter().map(|x| x.short()).collect::<Vec<_>>()
                    ),
                )));
            }
        }
        Ok(None)
    });
    let mut n = 0u64;
    let mut bad: Vec<(String, String)> = vec![];
    let mut mach = None;
    for r in results {
        match r {
            Ok(None) => n += 1,
            Ok(Some(x)) => {
                n += 1;
                if !bad.iter().any(|b| b.0 == x.0) {
                    bad.push(x);
                }
            }
            Err(e) => mach = Some(e),
        }
    }
    (n, bad, mach)
}
