//! Evidence files, known findings, replay artefacts, verdict lines.

#![allow(dead_code)]

use serde_json::{json, Value};
use std::collections::hash_map::DefaultHasher;
use std::hash::{Hash, Hasher};
use std::path::PathBuf;

pub fn verif_dir() -> PathBuf {
    std::env::var("VERIF_DIR").map(PathBuf::from).unwrap_or_else(|_| PathBuf::from("/verif"))
}

pub fn seed() -> i64 {
    std::env::var("VERIF_SEED").ok().and_then(|s| s.parse().ok()).unwrap_or(0)
}

pub struct Known {
    pub property: String,
    pub signature: String,
    pub what: String,
}

pub fn load_known() -> Vec<Known> {
    let p = verif_dir().join("known_findings.jsonl");
    let mut out = vec![];
    if let Ok(s) = std::fs::read_to_string(&p) {
        for line in s.lines() {
            let line = line.trim();
            if !line.starts_with('{') {
                continue; // "fixed: ..." lines and comments suppress nothing
            }
            if let Ok(v) = serde_json::from_str::<Value>(line) {
                out.push(Known {
                    property: v["property"].as_str().unwrap_or("").to_string(),
                    signature: v["signature"].as_str().unwrap_or("").to_string(),
                    what: v["what"].as_str().unwrap_or("").to_string(),
                });
            }
        }
    }
    out
}

/// One violation as reported by an engine.
pub struct Violation {
    pub signature: String,
    pub what: String,
    /// replay artefact (engine, configuration, history/program/schedule, observations)
    pub replay: Value,
}

pub struct CheckOutcome {
    pub property: String,
    pub tier: String,
    pub level: &'static str,
    pub coverage: Value,
    pub assumptions: Vec<String>,
    pub violations: Vec<Violation>,
    pub wall_s: f64,
    pub machinery_error: Option<String>,
}

/// Writes evidence, prints verdict lines, returns the process exit code.
pub fn finish(o: CheckOutcome) -> i32 {
    let dir = verif_dir();
    let _ = std::fs::create_dir_all(dir.join("evidence"));
    let _ = std::fs::create_dir_all(dir.join("replays"));
    if let Some(e) = &o.machinery_error {
        eprintln!("MACHINERY-ERROR property={} {}", o.property, e);
        return 2;
    }
    let known = load_known();
    let mut unknown = 0;
    let mut known_hits = vec![];
    let mut viol_list = vec![];
    for v in &o.violations {
        if let Some(k) = known.iter().find(|k| k.property == o.property && k.signature == v.signature) {
            println!("KNOWN-FINDING: property={} {} [{}]", o.property, k.what, v.signature);
            known_hits.push(json!({"signature": v.signature, "what": v.what}));
        } else {
            let mut h = DefaultHasher::new();
            v.signature.hash(&mut h);
            let path = dir.join("replays").join(format!("{}-{:016x}.json", o.property, h.finish()));
            let mut body = v.replay.clone();
            body["property"] = json!(o.property);
            body["signature"] = json!(v.signature);
            body["what"] = json!(v.what);
            let _ = std::fs::write(&path, serde_json::to_string_pretty(&body).unwrap());
            println!("VIOLATION property={} replay={}", o.property, path.display());
            println!("  signature: {}", v.signature);
            println!("  what: {}", v.what);
            unknown += 1;
            viol_list.push(json!({"signature": v.signature, "what": v.what, "replay": path.display().to_string()}));
        }
    }
    let mut coverage = o.coverage.clone();
    coverage["known_findings_hit"] = json!(known_hits);
    coverage["new_violations"] = json!(viol_list);
    let ev = json!({
        "property_id": o.property,
        "tier": o.tier,
        "seed": seed(),
        "level": o.level,
        "coverage": coverage,
        "assumptions": o.assumptions,
        "wall_s": (o.wall_s * 1000.0).round() / 1000.0,
        "violations": unknown,
    });
    let path = dir.join("evidence").join(format!("{}.json", o.property));
    if let Err(e) = std::fs::write(&path, serde_json::to_string_pretty(&ev).unwrap()) {
        eprintln!("MACHINERY-ERROR cannot write {}: {}", path.display(), e);
        return 2;
    }
    if unknown > 0 {
        1
    } else {
        println!(
            "OK property={} tier={} ({} known finding(s), evidence {})",
            o.property,
            o.tier,
            o.violations.len(),
            path.display()
        );
        0
    }
}

/// Merges the outcomes of several engines into one check result for a property.
pub fn merge(property: &str, tier: &str, parts: Vec<(&str, CheckOutcome)>) -> CheckOutcome {
    let mut states = 0u64;
    let mut transitions = 0u64;
    let mut traces = 0u64;
    let mut samples: Vec<Value> = vec![];
    let mut exhaustive = true;
    let mut by_engine = serde_json::Map::new();
    let mut violations = vec![];
    let mut assumptions: Vec<String> = vec![];
    let mut wall = 0.0;
    let mut mach = None;
    let mut level = "model_checking";
    let mut rules: Vec<String> = vec![];
    let mut distinct = 0u64;
    for (name, o) in parts {
        if let Some(r) = o.coverage["rule"].as_str() {
            rules.push(format!("[{}] {}", name, r));
        }
        distinct += o.coverage["distinct_nontrivial"].as_u64().or(o.coverage["states"].as_u64()).unwrap_or(0);
        states += o.coverage["states"].as_u64().unwrap_or(0);
        transitions += o.coverage["transitions"].as_u64().unwrap_or(0);
        traces += o.coverage["traces_validated_against_impl"].as_u64().unwrap_or(0);
        if let Some(a) = o.coverage["samples"].as_array() {
            samples.extend(a.iter().cloned());
        }
        if o.coverage["exhaustive"].as_bool() == Some(false) {
            exhaustive = false;
        }
        by_engine.insert(name.to_string(), o.coverage);
        for v in o.violations {
            if !violations.iter().any(|x: &Violation| x.signature == v.signature) {
                violations.push(v);
            }
        }
        for a in o.assumptions {
            if !assumptions.contains(&a) {
                assumptions.push(a);
            }
        }
        wall += o.wall_s;
        if o.machinery_error.is_some() {
            mach = o.machinery_error;
        }
        if o.level != "model_checking" {
            level = o.level;
        }
    }
    CheckOutcome {
        property: property.to_string(),
        tier: tier.to_string(),
        level,
        coverage: json!({
            "states": states,
            "transitions": transitions,
            "traces_validated_against_impl": traces,
            "evaluations": traces,
            "distinct_nontrivial": distinct,
            "rule": rules.join("  ||  "),
            "samples": samples,
            "exhaustive": exhaustive,
            "parts": Value::Object(by_engine),
        }),
        assumptions,
        violations,
        wall_s: wall,
        machinery_error: mach,
    }
}
