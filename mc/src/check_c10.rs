//! C10: no client input can crash, hang or bloat request processing (E3 boundary grid at the
//! decoder + handler, in-process, and a sub-grid over the real socket layer).

use crate::check_c09::par_map;
use crate::net::{NetCfg, NetWorld};
use crate::props::Tier;
use crate::report::{CheckOutcome, Violation};
use crate::sut::{Policy, SutCfg, World};
use crate::wire::{self, op, st, Req};
use serde_json::json;
use std::collections::BTreeMap;
use std::time::Instant;

const LIMIT: u32 = 1024;

#[derive(Clone, Debug)]
struct Shape {
    magic: u8,
    opcode: u8,
    data_type: u8,
    key_len: u16,
    extras_len: u8,
    /// index into the body-length menu
    body_sel: u8,
    /// 0 header only, 1 partial body, 2 exact, 3 body + next header
    avail: u8,
    cas: u64,
    /// 0 absent, 1 numeric 2^64-1, 2 non-numeric
    state: u8,
    /// incr/decr extras (delta, initial, expiration); ignored otherwise
    delta: (u64, u64, u32),
}

fn body_len(s: &Shape) -> u32 {
    let ke = s.key_len as u32 + s.extras_len as u32;
    match s.body_sel {
        0 => 0,
        1 => ke.saturating_sub(1),
        2 => ke,
        3 => ke + 1,
        4 => LIMIT - 1,
        5 => LIMIT,
        6 => LIMIT + 1,
        7 => 2 * LIMIT,
        _ => u32::MAX,
    }
}

fn defined_opcode(o: u8) -> bool {
    o <= 0x24 && o != 0x1b && o != 0x1f
}

fn key_required(o: u8) -> bool {
    matches!(
        o,
        op::GET | op::GETQ | op::GETK | op::GETKQ | op::SET | op::SETQ | op::ADD | op::ADDQ | op::REPLACE | op::REPLACEQ | op::DELETE
            | op::DELETEQ | op::INCR | op::INCRQ | op::DECR | op::DECRQ | op::APPEND | op::APPENDQ | op::PREPEND | op::PREPENDQ
    )
}

/// invalid by the property's list: such a header must never be executed
fn header_invalid(s: &Shape) -> bool {
    s.magic != 0x80
        || !defined_opcode(s.opcode)
        || s.data_type != 0
        || s.key_len > 250
        || s.extras_len > 20
        || (key_required(s.opcode) && s.key_len == 0)
        || body_len(s) < s.key_len as u32 + s.extras_len as u32
}

fn key_bytes(n: usize) -> Vec<u8> {
    vec![b'k'; n]
}

fn build(s: &Shape) -> Vec<u8> {
    let bl = body_len(s);
    let mut h = [0u8; 24];
    h[0] = s.magic;
    h[1] = s.opcode;
    h[2..4].copy_from_slice(&s.key_len.to_be_bytes());
    h[4] = s.extras_len;
    h[5] = s.data_type;
    h[8..12].copy_from_slice(&bl.to_be_bytes());
    h[12..16].copy_from_slice(&0xc10c10u32.to_be_bytes());
    h[16..24].copy_from_slice(&s.cas.to_be_bytes());
    let mut v = h.to_vec();
    // body as announced, capped (never materialise gigabytes)
    let want = (bl as usize).min(2 * LIMIT as usize + 64);
    let mut body: Vec<u8> = vec![];
    let mut ex = vec![0u8; s.extras_len as usize];
    if matches!(s.opcode, op::INCR | op::DECR | op::INCRQ | op::DECRQ) && s.extras_len >= 20 {
        ex[..8].copy_from_slice(&s.delta.0.to_be_bytes());
        ex[8..16].copy_from_slice(&s.delta.1.to_be_bytes());
        ex[16..20].copy_from_slice(&s.delta.2.to_be_bytes());
    }
    body.extend(ex);
    body.extend(key_bytes(s.key_len as usize));
    while body.len() < want {
        body.push(b'7');
    }
    body.truncate(want);
    match s.avail {
        0 => {}
        1 => v.extend_from_slice(&body[..body.len() / 2]),
        2 => v.extend_from_slice(&body),
        _ => {
            v.extend_from_slice(&body);
            v.extend(Req::bare(op::NOOP).opaque(0x5e).bytes());
        }
    }
    v
}

fn run_shape(s: &Shape) -> Option<(String, String)> {
    let world = World::new(SutCfg { item_limit: LIMIT, policy: Policy::None });
    // the key the frame will address (when its key length is 1 or 250)
    let k = key_bytes(s.key_len as usize);
    if s.state != 0 && !k.is_empty() && k.len() <= 250 {
        let mut c = world.conn();
        let v: &[u8] = if s.state == 1 { b"18446744073709551615" } else { b"abc" };
        c.exec(&Req::store(op::SET, &k, v, 3, 0, 0).bytes());
    }
    let before = world.dump();
    let mut conn = world.conn();
    let bytes = build(s);
    let out = conn.exec(&bytes);
    let name = || {
        format!(
            "magic={:#x} op={:#x}({}) dt={} key_len={} extras_len={} body_len={} avail={} cas={:#x} state={} delta={:?}",
            s.magic,
            s.opcode,
            wire::op_name(s.opcode),
            s.data_type,
            s.key_len,
            s.extras_len,
            body_len(s),
            ["header", "partial", "exact", "body+next"][s.avail as usize],
            s.cas,
            ["absent", "2^64-1", "abc"][s.state as usize],
            s.delta
        )
    };
    if let Some(p) = &out.panic {
        let site = p.rsplit('@').next().unwrap_or("").trim().to_string();
        return Some((format!("panic|{}", site), format!("{}: panicked: {}", name(), p)));
    }
    if out.decode_err.as_deref() == Some("no progress") {
        return Some(("no-progress".into(), format!("{}: decoder makes no progress", name())));
    }
    let cap = conn.buf.capacity();
    if cap > LIMIT as usize + 24 + 4096 + bytes.len() {
        return Some(("buffer-bloat".into(), format!("{}: decode buffer capacity {} > limit + 24 + 4096", name(), cap)));
    }
    if header_invalid(s) {
        let after = world.dump();
        let (resps, _) = wire::split_responses(&out.out);
        // the trailing noop of avail=3 may legitimately be answered only if the invalid frame was
        // skipped, which the decoder does not do for invalid headers (it closes); either way no
        // response to the invalid frame itself may report success
        let executed = resps.iter().any(|r| r.status == st::OK && r.opaque == 0xc10c10) || before != after;
        if executed {
            return Some((
                format!("invalid-executed|{}", wire::op_name(s.opcode)),
                format!("{}: a header that is invalid by the property's list was executed (responses {:?}, store changed: {})", name(), resps.iter().map(|r| r.short()).collect::<Vec<_>>(), before != after),
            ));
        }
    }
    // the response stream must be frame-aligned whatever was sent
    let (_, residue) = wire::split_responses(&out.out);
    if residue != 0 {
        return Some(("response-residue".into(), format!("{}: response stream not frame aligned", name())));
    }
    None
}

fn shapes(tier: Tier) -> Vec<Shape> {
    let mut v = vec![];
    let key_lens = [0u16, 1, 250, 251, 0xffff];
    let extras = [0u8, 4, 8, 20, 21, 255];
    let cas_vals = [0u64, 1, u64::MAX];
    let deltas: Vec<(u64, u64, u32)> = {
        let mut d = vec![];
        for a in [0u64, 1, u64::MAX] {
            for b in [0u64, u64::MAX] {
                for e in [0u32, 1, 0xffff_ffff] {
                    d.push((a, b, e));
                }
            }
        }
        d
    };
    for opcode in 0u16..=255 {
        let opcode = opcode as u8;
        let full = opcode <= 0x26;
        let is_delta = matches!(opcode, op::INCR | op::DECR | op::INCRQ | op::DECRQ);
        for &key_len in &key_lens {
            for &extras_len in &extras {
                for body_sel in 0..9u8 {
                    for avail in 0..4u8 {
                        if !full && !(key_len <= 1 && (extras_len == 0 || extras_len == 8) && (avail == 2 || avail == 0)) {
                            continue;
                        }
                        for &cas in &cas_vals {
                            for state in 0..3u8 {
                                if !full && (cas != 0 || state != 0) {
                                    continue;
                                }
                                if tier == Tier::Quick && full && state == 2 && cas == 1 {
                                    continue;
                                }
                                let ds: &[(u64, u64, u32)] = if is_delta && extras_len == 20 { &deltas } else { &deltas[..1] };
                                for d in ds {
                                    v.push(Shape { magic: 0x80, opcode, data_type: 0, key_len, extras_len, body_sel, avail, cas, state, delta: *d });
                                }
                            }
                        }
                    }
                }
            }
        }
        // wrong magic / data type: reduced sub-grid
        for (magic, dt) in [(0x81u8, 0u8), (0x00, 0), (0x80, 1), (0x80, 0xff)] {
            for &key_len in &[0u16, 1] {
                for &extras_len in &[0u8, 8, 20] {
                    for body_sel in [2u8, 6] {
                        for avail in [0u8, 2, 3] {
                            v.push(Shape { magic, opcode, data_type: dt, key_len, extras_len, body_sel, avail, cas: 0, state: 1, delta: (1, 1, 0) });
                        }
                    }
                }
            }
        }
    }
    v
}

/// The same extreme headers on a real socket: no panic in a server task, the connection answers,
/// waits or is closed, and the server keeps serving.
fn socket_case(s: &Shape) -> Result<Option<(String, String)>, String> {
    let w = NetWorld::new(NetCfg { item_limit: LIMIT, ..Default::default() })?;
    let p0 = crate::sut::thread_panics();
    let mut c = w.connect()?;
    let bytes = build(s);
    let _ = c.step(&w, &bytes);
    // silence afterwards: a server waiting for the rest must give up at the idle timeout
    w.advance(61);
    c.pump();
    let panics = crate::sut::thread_panics() - p0;
    let name = format!("socket: op={:#x} key_len={} extras_len={} body_len={} avail={} cas={:#x}", s.opcode, s.key_len, s.extras_len, body_len(s), s.avail, s.cas);
    if panics > 0 {
        let p = crate::sut::take_last_panic().unwrap_or_default();
        let site = p.rsplit('@').next().unwrap_or("").trim().to_string();
        return Ok(Some((format!("panic|{}", site), format!("{}: a server task panicked: {}", name, p))));
    }
    if !c.eof {
        return Ok(Some(("hang|connection-open".into(), format!("{}: connection still open after 61 s of silence", name))));
    }
    let (_, residue) = wire::split_responses(&c.got);
    if residue != 0 {
        return Ok(Some(("response-residue".into(), format!("{}: response stream not frame aligned", name))));
    }
    let mut f = w.connect()?;
    f.step(&w, &Req::bare(op::NOOP).opaque(1).bytes())?;
    if wire::split_responses(&f.got).0.len() != 1 || !w.server_alive() {
        return Ok(Some(("server-down".into(), format!("{}: a fresh connection is not served afterwards", name))));
    }
    Ok(None)
}

/// A header that is invalid by the property's list (here: wrong magic, non-zero data type), with a
/// layout that would be executable if the magic and data type were right, on a real socket and a
/// store that holds an item under the very key: nothing of it is ever executed, whatever the
/// connection does afterwards (answer, wait, close).
fn socket_invalid_case(s: &Shape) -> Result<Option<(String, String)>, String> {
    let w = NetWorld::new(NetCfg { item_limit: LIMIT, ..Default::default() })?;
    {
        let mut c = w.connect()?;
        c.step(&w, &Req::store(op::SET, &key_bytes(1), b"10", 7, 0, 0).opaque(1).bytes())?;
        c.close(&w);
    }
    let before: Vec<(Vec<u8>, Vec<u8>, u32, u64)> = w.dump().into_iter().map(|d| (d.key, d.value, d.flags, d.cas)).collect();
    let p0 = crate::sut::thread_panics();
    let mut c = w.connect()?;
    let _ = c.step(&w, &build(s));
    w.settle();
    let _ = c.step(&w, &Req::bare(op::NOOP).opaque(0x5f).bytes());
    w.advance(61);
    c.pump();
    let name = format!("socket: magic={:#x} data_type={} op={:#x} key_len={} extras_len={} body_len={} avail={}", s.magic, s.data_type, s.opcode, s.key_len, s.extras_len, body_len(s), s.avail);
    if crate::sut::thread_panics() - p0 > 0 {
        let p = crate::sut::take_last_panic().unwrap_or_default();
        let site = p.rsplit('@').next().unwrap_or("").trim().to_string();
        return Ok(Some((format!("panic|{}", site), format!("{}: a server task panicked: {}", name, p))));
    }
    let after: Vec<(Vec<u8>, Vec<u8>, u32, u64)> = w.dump().into_iter().map(|d| (d.key, d.value, d.flags, d.cas)).collect();
    if after != before {
        return Ok(Some((
            format!("invalid-header-executed|{}", wire::op_name(s.opcode)),
            format!("{}: the store changed from {:?} to {:?}", name, before.iter().map(|x| (wire::show(&x.0), wire::show(&x.1))).collect::<Vec<_>>(), after.iter().map(|x| (wire::show(&x.0), wire::show(&x.1))).collect::<Vec<_>>()),
        )));
    }
    if !c.eof {
        return Ok(Some(("hang|connection-open".into(), format!("{}: connection still open after 61 s of silence", name))));
    }
    let mut f = w.connect()?;
    f.step(&w, &Req::bare(op::NOOP).opaque(1).bytes())?;
    if wire::split_responses(&f.got).0.len() != 1 || !w.server_alive() {
        return Ok(Some(("server-down".into(), format!("{}: a fresh connection is not served afterwards", name))));
    }
    Ok(None)
}

/// An oversized request whose body arrives in three pieces with pipelined requests behind the
/// last piece: the discard loop must not panic, over-read or stall.
fn socket_split_case(opcode: u8, body_len: u32) -> Result<Option<(String, String)>, String> {
    let w = NetWorld::new(NetCfg { item_limit: LIMIT, ..Default::default() })?;
    let p0 = crate::sut::thread_panics();
    let mut c = w.connect()?;
    let mut big = Req::new(opcode).opaque(0xb16);
    big.key = b"k".to_vec();
    big.value = vec![0x42; body_len as usize - 1];
    let bytes = big.bytes();
    let mut tail = bytes[24 + 100 + (body_len as usize - 100) / 3..].to_vec();
    tail.extend(Req::bare(op::NOOP).opaque(0x51).bytes());
    tail.extend(Req::get(op::GET, b"k").opaque(0x52).bytes());
    let _ = c.step(&w, &bytes[..24 + 100]);
    let _ = c.step(&w, &bytes[24 + 100..24 + 100 + (body_len as usize - 100) / 3]);
    let _ = c.step(&w, &tail);
    w.settle();
    c.pump();
    let name = format!("socket: oversized op={:#x} body {} in three pieces + noop + get", opcode, body_len);
    if crate::sut::thread_panics() > p0 {
        let p = crate::sut::take_last_panic().unwrap_or_default();
        let site = p.rsplit('@').next().unwrap_or("").trim().to_string();
        return Ok(Some((format!("panic|{}", site), format!("{}: a server task panicked: {}", name, p))));
    }
    let (resps, residue) = wire::split_responses(&c.got);
    if residue != 0 {
        return Ok(Some(("response-residue".into(), format!("{}: response stream not frame aligned", name))));
    }
    // each request is answered, or the connection is closed
    if !c.eof && resps.len() != 3 {
        w.advance(61);
        c.pump();
        if !c.eof {
            return Ok(Some(("hang|connection-open".into(), format!("{}: {} of 3 requests answered and the connection still open after 61 s", name, resps.len()))));
        }
    }
    Ok(None)
}

pub fn check(tier: Tier, threads: usize) -> CheckOutcome {
    let t0 = Instant::now();
    let all = shapes(tier);
    crate::watchdog::working_on("C10 boundary grid (decoder + handler)".into());
    // chunked so that the watchdog sees progress
    let chunks: Vec<&[Shape]> = all.chunks(2000).collect();
    let res = par_map(&chunks, threads, |_, ch| {
        let mut v: Vec<(String, String)> = vec![];
        for s in ch.iter() {
            if let Some(x) = run_shape(s) {
                v.push(x);
            }
        }
        v
    });
    let mut found: BTreeMap<String, Violation> = BTreeMap::new();
    let mut failing = 0u64;
    for v in res {
        for (sig, what) in v {
            failing += 1;
            found.entry(sig.clone()).or_insert(Violation { signature: sig, what, replay: json!({"engine": "c10-grid"}) });
        }
    }
    // socket sub-grid
    let sock: Vec<Shape> = all
        .iter()
        .filter(|s| {
            s.magic == 0x80
                && s.data_type == 0
                && (s.key_len == 1 || s.key_len == 0 || s.key_len == 251)
                && matches!(s.extras_len, 0 | 8 | 20 | 21)
                && matches!(s.body_sel, 1 | 2 | 3 | 6 | 8)
                && s.state == 1
                && (s.cas == 0 || s.cas == u64::MAX)
                && (s.delta == (1, 0, 0) || s.delta == (0, 0, 0))
                && (s.opcode <= 0x26 || s.opcode == 0xff)
        })
        .cloned()
        .collect();
    // wrong magic / data type over the socket, on a store that holds the addressed key
    let sock_invalid: Vec<Shape> = all
        .iter()
        .filter(|s| (s.magic != 0x80 || s.data_type != 0) && s.opcode <= 0x26 && s.avail >= 2)
        .cloned()
        .collect();
    let mut mach = None;
    crate::watchdog::working_on("C10 socket sub-grid (invalid magic / data type)".into());
    let ires = par_map(&sock_invalid, threads, |_, s| socket_invalid_case(s));
    for r in ires.iter() {
        match r {
            Err(e) => mach = Some(e.clone()),
            Ok(Some((sig, what))) => {
                found.entry(sig.clone()).or_insert(Violation { signature: sig.clone(), what: what.clone(), replay: json!({"engine": "c10-socket-invalid"}) });
            }
            Ok(None) => {}
        }
    }
    crate::watchdog::working_on("C10 socket sub-grid".into());
    let sres = par_map(&sock, threads, |_, s| socket_case(s));
    for r in sres {
        match r {
            Err(e) => mach = Some(e),
            Ok(Some((sig, what))) => {
                failing += 1;
                found.entry(sig.clone()).or_insert(Violation { signature: sig, what, replay: json!({"engine": "c10-socket"}) });
            }
            Ok(None) => {}
        }
    }
    // an oversized body streamed in small reads: what the connection keeps buffered must stay bounded
    crate::watchdog::working_on("C10 oversized body streamed in 512-byte reads".into());
    for opc in [op::SET, op::GET, op::APPEND, op::NOOP, op::TOUCH] {
        for body in [LIMIT + 1, 2 * LIMIT, 64 * LIMIT, 1024 * LIMIT] {
            crate::watchdog::beat();
            let world = World::new(SutCfg { item_limit: LIMIT, policy: Policy::None });
            let mut conn = world.conn();
            let mut r = Req::new(opc).opaque(0xb10a7);
            r.key = b"k".to_vec();
            r.body_len = Some(body);
            let _ = conn.exec(&r.header());
            let mut high = conn.buf.len();
            let chunk = vec![0x61u8; 512];
            let mut fed = 0usize;
            while fed < (body as usize).min(200 * 1024) {
                let _ = conn.exec(&chunk);
                fed += chunk.len();
                high = high.max(conn.buf.len());
                if conn.closed {
                    break;
                }
            }
            if high > LIMIT as usize + 24 + 4096 {
                failing += 1;
                let sig = "buffer-bloat|streamed-oversized-body".to_string();
                found.entry(sig.clone()).or_insert(Violation {
                    signature: sig,
                    what: format!("op {:#x} announcing a {}-byte body (limit {}), streamed in 512-byte reads: the decode buffer held {} bytes, bound is limit + 24 + 4096", opc, body, LIMIT, high),
                    replay: json!({"engine": "c10-stream"}),
                });
            }
        }
    }
    crate::watchdog::idle();
    // a complete well-formed request is answered however it arrives: every corpus frame on its own,
    // delivered in two pieces at every cut (nothing behind it that could complete a short buffer)
    {
        crate::watchdog::working_on("C10 single requests delivered in two pieces".into());
        let frames = crate::corpus::well_formed(b"k");
        for f in frames.iter().filter(|f| f.req.body_length() <= LIMIT) {
            crate::watchdog::beat();
            let b = f.bytes();
            let (whole, _) = crate::check_c09::run_decoder(&[&b]);
            for cut in 1..b.len() {
                let (two, residue) = crate::check_c09::run_decoder(&[&b[..cut], &b[cut..]]);
                if two.handled != whole.handled || two.err != whole.err || two.out != whole.out {
                    failing += 1;
                    let sig = format!("request-not-taken|{}", if cut <= 24 { "cut-in-header" } else { "cut-in-body" });
                    found.entry(sig.clone()).or_insert(Violation {
                        signature: sig,
                        what: format!(
                            "{} ({} body bytes) delivered as {} + {} bytes: {} request(s) handled, error={}, {} bytes left waiting in the buffer - delivered whole: {} handled",
                            f.name, b.len() - 24, cut, b.len() - cut, two.handled, two.err, residue, whole.handled
                        ),
                        replay: json!({"engine": "c10-two-pieces", "frame": f.name, "cut": cut}),
                    });
                    break;
                }
            }
        }
        crate::watchdog::idle();
    }
    let mut split_cases: Vec<(u8, u32)> = vec![];
    for opc in [op::SET, op::GET, op::INCR, op::NOOP, op::TOUCH, op::APPENDQ, op::QUIT] {
        for l in [LIMIT + 150, 2 * LIMIT, LIMIT + 70_000, LIMIT + 200_000] {
            split_cases.push((opc, l));
        }
    }
    let spres = par_map(&split_cases, threads, |_, (o, l)| socket_split_case(*o, *l));
    for r in spres {
        match r {
            Err(e) => mach = Some(e),
            Ok(Some((sig, what))) => {
                failing += 1;
                found.entry(sig.clone()).or_insert(Violation { signature: sig, what, replay: json!({"engine": "c10-socket-split"}) });
            }
            Ok(None) => {}
        }
    }
    let samples: Vec<serde_json::Value> = all.iter().step_by((all.len() / 6).max(1)).take(6).map(|s| json!(format!("{:?}", s))).collect();
    CheckOutcome {
        property: "C10".into(),
        tier: if tier == Tier::Quick { "quick".into() } else { "thorough".into() },
        level: "exploration",
        coverage: json!({
            "evaluations": all.len() + sock.len(),
            "distinct_nontrivial": all.len() + sock.len(),
            "grid_cases_in_process": all.len(),
            "grid_cases_on_socket": sock.len(),
            "invalid_magic_or_data_type_cases_on_socket": sock_invalid.len(),
            "oversized_three_piece_socket_cases": split_cases.len(),
            "cases_failing": failing,
            "samples": samples,
            "exhaustive": true,
            "rule": "boundary grid: opcode 0..255 x key length {0,1,250,251,0xffff} x extras {0,4,8,20,21,255} x body length {0,k+e-1,k+e,k+e+1,limit-1,limit,limit+1,2*limit,2^32-1} x bytes available {header, partial body, exact, body+next header} x CAS {0,1,2^64-1} x stored value {absent, 2^64-1, non-numeric} x incr/decr delta/initial/expiration extremes, plus wrong magic / data type sub-grids; each case is decoded, executed and encoded by the real code under catch_unwind with overflow checks on; a sub-grid is replayed over a real socket with a virtual 61 s of silence (no hang). Every case is distinct by construction",
        }),
        assumptions: vec![
            "field values strictly inside the grid intervals are not covered (no random bytes: sampling is outside this technique)".into(),
            "harness build profile has overflow-checks and debug-assertions on".into(),
        ],
        violations: found.into_values().collect(),
        wall_s: t0.elapsed().as_secs_f64(),
        machinery_error: mach,
    }
}
