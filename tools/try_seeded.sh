#!/bin/bash
# usage: tools/try_seeded.sh <worktree> <seed-id> [checks...]
# 1. confirms in the worktree: suite passes with the change, demo fails with it and passes without it
# 2. applies the patch to /repo, runs the given checks (default: all 20, quick tier), reverts /repo
set -u
WT="$1"; ID="$2"; shift 2
CHECKS="${*:-C01 C02 C03 C04 C05 C06 C07 C08 C09 C10 C11 C12 C13 C14 C15 C16 C17 C18 C19 C20}"
OUT=/verif/seeded/$ID
mkdir -p "$OUT"
git -C "$WT" diff -- memcrs/src > "$OUT/patch.diff"
DEMO=$(ls "$WT"/memcrs/tests/*.rs 2>/dev/null | head -1)
[ -n "$DEMO" ] && cp "$DEMO" "$OUT/"
LOG="$OUT/confirm.log"
if [ "${SKIP_CONFIRM:-0}" != 1 ]; then
: > "$LOG"
cd "$WT" || exit 2
echo "== demo WITH change" >> "$LOG"
timeout 900 cargo test --offline --test "$(basename "$DEMO" .rs)" >> "$LOG" 2>&1; D_WITH=$?
# (git stash is shared by all worktrees of a repository: never use it here)
git apply -R "$OUT/patch.diff"
echo "== demo WITHOUT change" >> "$LOG"
timeout 900 cargo test --offline --test "$(basename "$DEMO" .rs)" >> "$LOG" 2>&1; D_WITHOUT=$?
git apply "$OUT/patch.diff"
mv "$DEMO" "$DEMO.off"
echo "== suite WITH change" >> "$LOG"
timeout 900 cargo test --workspace --offline > "$OUT/suite.log" 2>&1; S=$?
mv "$DEMO.off" "$DEMO"
PASSED=$(grep -E '^test result: ok. 92 passed' "$OUT/suite.log" | wc -l)
echo "demo_with_change_exit=$D_WITH demo_without_change_exit=$D_WITHOUT suite_exit=$S suite_92_passed=$PASSED" | tee -a "$LOG"
fi
[ "${ONLY_CONFIRM:-0}" = 1 ] && exit 0
# 2. run the checks against /repo with the patch applied
cd /repo || exit 2
if ! git diff --quiet; then echo "/repo is dirty, refusing"; exit 2; fi
git apply "$OUT/patch.diff" || { echo "patch does not apply"; exit 2; }
RES="$OUT/checks.txt"; : > "$RES"
for c in $CHECKS; do
    timeout 600 /verif/run check "$c" --tier quick > "$OUT/check-$c.log" 2>&1; rc=$?
    n=$(grep -c '^VIOLATION' "$OUT/check-$c.log")
    echo "$c exit=$rc violations=$n" >> "$RES"
done
git -C /repo checkout -- .
# restore evidence files overwritten by the mutant runs
git -C /verif checkout -- evidence 2>/dev/null
grep -v 'exit=0' "$RES" | tr '\n' ' '; echo
