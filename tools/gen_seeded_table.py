#!/usr/bin/env python3
"""Rewrites the table of seeded changes in DESIGN.md (between the SEEDED-TABLE markers) from seeded/*/meta.json."""
import json, glob, re
rows = []
for d in sorted(glob.glob('/verif/seeded/*/meta.json')):
    m = json.load(open(d))
    caught = [c.split()[0] for c in m.get('last_check_results', []) if 'exit=1' in c]
    rows.append((m['id'], m['property'], m['change'], m['needs_to_manifest'], m['outcome'], caught))
def short(s, n):
    s = s.replace('|', '/').replace('\n', ' ')
    return s if len(s) <= n else s[:n - 1] + '…'
lines = ["| id | change (needs … to manifest) | detected by (quick tier) | what had to be strengthened first |", "|---|---|---|---|"]
n_strength = 0
for (i, p, ch, needs, outcome, caught) in rows:
    if 'initially' in outcome:
        n_strength += 1
        k = outcome.find('after ')
        st = outcome[k:] if k >= 0 else outcome
    else:
        st = '—'
    lines.append(f"| {i} | {short(ch, 240)} ({short(needs, 130)}) | {', '.join(caught) if caught else '-'} | {short(st, 280)} |")
table = "\n".join(lines)
s = open('/verif/DESIGN.md').read()
b, e = '<!-- SEEDED-TABLE-BEGIN -->', '<!-- SEEDED-TABLE-END -->'
if b in s:
    s = s[:s.index(b) + len(b)] + "\n" + table + "\n" + s[s.index(e):]
open('/verif/DESIGN.md', 'w').write(s)
print(len(rows), "rows;", n_strength, "needed strengthening")
