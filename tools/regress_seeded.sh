#!/bin/bash
# usage: tools/regress_seeded.sh [ids...]   (default: every /verif/seeded/<id>)
# Applies each seeded change to /repo, runs the quick check of its own property, reverts.
# Prints one line per change; exit 1 if any change is not detected.
set -u
cd /verif
IDS="${*:-$(ls seeded | sort)}"
if ! git -C /repo diff --quiet; then echo "/repo is dirty, refusing"; exit 2; fi
miss=0
for id in $IDS; do
    prop=${id%%-*}
    git -C /repo apply /verif/seeded/$id/patch.diff || { echo "$id patch-does-not-apply"; miss=1; continue; }
    timeout 900 /verif/run check "$prop" --tier quick > /tmp/regress-$id.log 2>&1; rc=$?
    n=$(grep -c '^VIOLATION' /tmp/regress-$id.log)
    git -C /repo checkout -- .
    if [ "$rc" = 1 ] && [ "$n" -gt 0 ]; then echo "$id detected exit=$rc violations=$n"; else echo "$id MISSED exit=$rc violations=$n"; miss=1; fi
    rm -f /tmp/regress-$id.log
done
git -C /verif checkout -- evidence 2>/dev/null
exit $miss
