#!/usr/bin/env python3
"""Generates /verif/MANIFEST.json from the table below (single source of truth)."""
import json, os, subprocess
HERE = os.path.dirname(os.path.dirname(os.path.abspath(__file__)))

def commits():
    out = subprocess.run(["git", "-C", "/repo", "log", "--format=%H %s"], capture_output=True, text=True).stdout
    return [l.split()[0] for l in out.splitlines() if "verif hooks" in l]

SEQ_NOTE = ("Trusted: the reference model (DESIGN.md Appendix A, every 'may' listed there), the independent wire codec, "
            "the add-only dump/usage/response-bytes accessors behind feature memcrs_verif. Bounded: depth and alphabet in the evidence; "
            "state merging assumes shift-invariance of timestamps/CAS (thorough tier re-runs with exact fingerprints).")

CHECKS = {
 "C01": dict(engine="seq+sched+net", cat="model_checking", ref="§4 C01, §2.3",
   technique="explicit-state BFS over command histories executing the real decode/handle/encode path, reference model in lock-step",
   text="Every command history up to the depth bound over a 2-key alphabet (empty/binary/limit-sized values, flag extremes, TTLs, clock steps, flush, CAS stores that match and that are rejected, both eviction policies) is executed on the real code; after every command the responses and the full store dump are compared with the reference model (value, flags, CAS, key isolation, nothing lost). Second part (E1): one client's store-then-get on its key against every schedule of another client working on a different key (same and other shard) or reading the same key, all initial states, checked by linearizability. Third part: opaque-independence differential - every history on two stores driven with different opaques, responses (modulo the echoed opaque) and stores equal after every command. Every sequential check also explores the quick alphabets of the other sequential properties (incl. C16's long repetitions) under its own clauses (cross-alphabet pass). Per configuration a history-exhaustive second pass executes every history up to the depth that |alphabet|^d <= 1.5 M (thorough 40 M) allows without state matching (state kept outside the store cannot hide behind equal dumps). Fourth part (E4): large stored values (0.2-1 MB) read back with get/getk/getq through a full socket, with and without the reader staying away beyond the idle timeout: value and flags byte for byte.",
   note=SEQ_NOTE),
 "C02": dict(engine="seq", cat="model_checking", ref="§4 C02, §2.3",
   technique="explicit-state BFS over CAS histories on the real code with a token-uniqueness/iff oracle",
   text="All histories up to the bound of stores/RMW/deletes with CAS in {0,current,stale1,stale2,current+1,MAX,arbitrary} on 2 keys incl. expiry and re-creation; oracle: succeeds iff CAS matches, failure = 0x02 and bit-identical entry, new token non-zero, never carried before in the lifetime, and equal to what the store then holds. A second configuration runs CAS-carrying stores that also carry a TTL on a server whose clock is at 100 s. A third starts from non-initial states: 7..257 earlier stores (every power of two and its neighbours, 10, 100) on the guarded key and on another one, every step of the walk judged, then BFS from its end. The alphabet contains the quiet forms of the guarded commands (setq/replaceq/appendq/incrq/deleteq with a stale CAS, replaceq with the current one, addq on a present key): a failed guard is reported, only success is silent. Per configuration a history-exhaustive second pass executes every history up to the depth that |alphabet|^d <= 1.5 M (thorough 40 M) allows without state matching (state kept outside the store cannot hide behind equal dumps).",
   note=SEQ_NOTE),
 "C05": dict(engine="seq+sched", cat="model_checking", ref="§4 C05, §2.3",
   technique="explicit-state BFS over TTL/clock/flush histories on the real code under an injected Timer, must-hit/must-miss window oracle",
   text="All histories up to the bound over TTL {0,1,2,3,30d}, relative clock steps incl. exactly-to-expiry and one-second-before, delayed and immediate flush, every command kind on live/just-expired/long-expired items; oracle: must-hit before s+TTL, must-miss from last-mutation+TTL, expired = absent for every command, never visible again, nothing prolongs (also checked on the dump after every command). Second part (E1): every presence-dependent command against concurrent get(s) on an expired, not yet collected item, every schedule, linearizability (expired = absent). Family ttl-store-vs-cmd-then-time-passes: set/add with a TTL against flush, delayed flush, get, delete, set, append, incr or a store on another key (absent and present), every schedule; after the race the clock moves on 5 s and every key is read: a record past its own timestamp + TTL is never returned. Per configuration a history-exhaustive second pass executes every history up to the depth that |alphabet|^d <= 1.5 M (thorough 40 M) allows without state matching (state kept outside the store cannot hide behind equal dumps).",
   note=SEQ_NOTE),
 "C06": dict(engine="seq", cat="model_checking", ref="§4 C06, §2.3",
   technique="explicit-state BFS over add/replace/append/prepend histories on the real code against the reference model",
   text="All histories up to the bound of add/replace/append/prepend with empty, binary and limit-reaching operands on absent/present/expired/deleted/flushed keys; oracle: status per the property, old+suffix / prefix+old, flags kept, rejected command leaves the entry bit-identical. Concurrent part (E1): replace / add / append / prepend against a concurrent set or get of the same key, every schedule up to the bound, linearizability (only pairs that are linearizable on the unchanged tree; two read-modify-write commands racing are C04's recorded findings). Per configuration a history-exhaustive second pass executes every history up to the depth that |alphabet|^d <= 1.5 M (thorough 40 M) allows without state matching (state kept outside the store cannot hide behind equal dumps).",
   note=SEQ_NOTE),
 "C07": dict(engine="seq", cat="model_checking", ref="§4 C07, §2.3",
   technique="explicit-state BFS over counter histories on the real code with a u64 arithmetic oracle",
   text="All histories up to the bound over 13 stored texts (u64 extremes, leading zeros, signs, blanks, empty, non-UTF-8) x delta/initial/expiration/CAS extremes; oracle: (v+d) mod 2^64, max(v-d,0), 8-byte BE response, stored decimal text, flags kept, creation/0xffffffff rule, non-numeric = 0x06 and unchanged; zero-padded texts of 20, 21 and 40 characters; quiet incr/decr (errors still answered). Second part: the opaque-independence differential (two stores, different opaques, equal responses modulo the opaque and equal stores). For a value that is certainly no decimal u64 the answer is 'non-numeric value' whatever CAS the request carries. Per configuration a history-exhaustive second pass executes every history up to the depth that |alphabet|^d <= 1.5 M (thorough 40 M) allows without state matching (state kept outside the store cannot hide behind equal dumps).",
   note=SEQ_NOTE),
 "C08": dict(engine="seq+sched", cat="model_checking", ref="§4 C08, §2.3",
   technique="explicit-state BFS over delete/flush histories on 3 keys on the real code against the exact-removal model",
   text="All histories up to the bound of set/delete(cas 0, matching, stale)/flush(0, n)/clock/re-store on 3 keys; oracle: delete removes exactly the addressed key, 0x01 absent, 0x02 and unchanged on mismatch, immediate flush empties the store, delayed flush deadline holds, later stores (also CAS re-stores while a delayed flush is pending) unaffected. Second part (E1): delete with cas 0 / matching / stale against every schedule of a concurrent set, cas-set, get, flush or a command on another key of the same shard, all initial states, linearizability. Per configuration a history-exhaustive second pass executes every history up to the depth that |alphabet|^d <= 1.5 M (thorough 40 M) allows without state matching (state kept outside the store cannot hide behind equal dumps).",
   note=SEQ_NOTE),
}

SCHED_NOTE = ("Trusted: shuttle 0.9.3's execution engine (one task at a time, blocked/runnable bookkeeping), the vendored dashmap 5.5.3 whose only "
              "changes are lock.rs (shard lock routed to shuttle's BatchSemaphore, same admission rule), a fixed hasher and a settable shard count, the "
              "sequential specification in linspec.rs. Sequentially consistent exploration; scheduling points = shard-lock acquire/release and the two AtomicU64s (hook).")

CHECKS.update({
 "C03": dict(engine="sched", cat="model_checking", ref="§4 C03, §2.2",
   technique="stateless DFS over all thread schedules (preemption-bounded, iterated until no alternative is pruned) of the real store under a controlled scheduler, brute-force linearizability oracle",
   text="For every program of 2-3 clients x 1-2 of {get,set,cas-set(current),cas-set(stale),delete,delete(cas)} on one key and each initial state (absent, present, present-but-expired) every schedule at lock/atomic granularity is executed on the real MemoryStore through real BinaryHandlers; each execution's call/return history and final content must be explained by a sequential order (linearizability), and the CAS values acknowledged to mutations of one key inside a concurrent phase must be pairwise distinct; the alphabet includes stores that write the very bytes already stored (colliding values). Quick: 2x1 all schedules, 3x1 bound 2-3; thorough: all families until saturation (every schedule).",
   note=SCHED_NOTE),
 "C04": dict(engine="sched", cat="model_checking", ref="§4 C04, §2.2",
   technique="stateless DFS over all thread schedules of the real store under a controlled scheduler, brute-force linearizability oracle",
   text="Same engine as C03 with add/replace/append/prepend/incr/decr added (values chosen so lost updates are visible). The unchanged tree violates this property for 41 (state, command pair) combinations because these commands are get-then-set; they are listed as known findings, every other pair/triple must be linearizable. The 2x1 family is run both on the bare store and behind the random eviction policy (unreachable limit). Family rmw-with-cas: CAS-guarded incr/decr/append/prepend against each other, against plain writers, against delete+re-store, and two or three clients sending byte-identical guarded commands (only one may win).",
   note=SCHED_NOTE),
 "C14": dict(engine="seq+sched", cat="model_checking", ref="§4 C14, §2.2, §2.3",
   technique="explicit-state BFS over histories with every eviction victim enumerated (RNG seam) + stateless DFS over all schedules of concurrent stores, bound checked on the dump",
   text="Sequential: all histories up to the bound under RandomPolicy with limits {10,34,60,100,(200)} where every victim index is a branch; after every command sum(record sizes) <= L + last written record and the written record is present. Concurrent: 2-3 storing clients (also 2x2), all schedules up to the preemption bound and all victims: at rest sum <= L + sizes of the program's stores, then sequential follow-up stores must keep the strict bound L + one record - with memory pressure during the race (6 racing pairs are listed known findings) and without (limit 400, then fill: holds); deadlock/step-horizon detection gives termination. The alphabet includes stores carrying a CAS (matching, and on an absent key); an acknowledged store whose record is missing at once is own-record-evicted. Per configuration a history-exhaustive second pass executes every history up to the depth that |alphabet|^d <= 1.5 M (thorough 40 M) allows without state matching (state kept outside the store cannot hide behind equal dumps).",
   note=SEQ_NOTE + " " + SCHED_NOTE),
 "C15": dict(engine="seq+sched", cat="model_checking", ref="§4 C15, §2.3",
   technique="explicit-state BFS over histories on the real code under RandomPolicy, accounting counter (hook) compared with the dump after every command",
   text="All histories up to the bound of every command kind on 3 keys under a generous limit: (accounted usage - sum of stored record sizes) must not change in any command, and no live item may disappear while the stored records fit under the limit (behavioural form, limit 130). The unchanged tree drifts at 5 call sites; each (unaccounted record, command) is a listed known finding; drift of any other amount outside the eviction loop is not listed. Second part (E1): programs whose commands account exactly when run alone (deletes, stores under fresh keys, reads): the drift must be unchanged across the concurrent phase under every schedule. Concurrent families also start from an expired, uncollected item met by two or three clients; the drift clause is signed (over-count: the recorded lazy-expiry drift; under-count: never listed). A third sequential configuration executes a small alphabet on two OS threads of the runner (one command at a time, histories enumerated without state merging): thread-affine accounting; a live item lost while even the counter is below the limit is never a recorded finding. The arithmetic of a command that ran the eviction loop is verified exactly (attempted record added, every victim subtracted once, or restart on an empty store): anything else is usage-drift@eviction-loop-unexplained, never recorded; configuration phantom-bytes-L=100 lets accounted-but-not-stored bytes exceed the limit. Per configuration a history-exhaustive second pass executes every history up to the depth that |alphabet|^d <= 1.5 M (thorough 40 M) allows without state matching (state kept outside the store cannot hide behind equal dumps).",
   note=SEQ_NOTE),
 "C16": dict(engine="sched+seq", cat="model_checking", ref="§4 C16, §2.2",
   technique="stateless DFS over all thread schedules of the real store under a controlled scheduler with deadlock (no enabled task) and step-horizon (livelock) detection",
   text="Programs of 1-3 clients over {get,set,cas-set,delete,add,append,incr,flush,other-key ops, evicting stores} with keys on the same and on different shards (2 shards), policies none and random with a tight limit (eviction sweeps, all victims), initial states absent/present/expired: every schedule up to the bound must run to completion; a blocked system or >20000 steps is a violation. Family refused-then-again: a refused command (stale CAS) followed by the same kind of command on one client and across two. Sequential part (E2): one client repeating each command 300 (thorough 3000) times on an absent, a present and an expired-uncollected key, and set/expire/read cycles; every step must return (30 s watchdog). The scheduler is fair: a task that takes 2000 scheduling points in a row while another client can run is made to yield (no preemption cost, no branch), so a client waiting in a spin loop for one that would finish is not reported; spinning on after the others have finished still exhausts the step horizon.",
   note=SCHED_NOTE),
})

NET_NOTE = ("Trusted: tokio's paused clock advances only when no task is runnable (quiescence detection by settle()); Linux loopback delivers a "
            "transmitted segment before send returns (SIOCOUTQNSD checked); the independent wire codec; the in-process reference runs of the same "
            "requests. No hook is used by the socket layer: the real MemcacheTcpServer/Client/MemcacheBinaryConnection run on real TCP sockets.")

CHECKS.update({
 "C09": dict(engine="net+decoder", cat="model_checking", ref="§4 C09, §2.4, §2.5",
   technique="exhaustive enumeration of every 1-cut, 2-cut and byte-at-a-time segmentation of every corpus stream, at the real decoder and over real loopback TCP on a paused single-thread runtime",
   text="Corpus: one frame per opcode 0x00-0x24 plus 20 anomalous-but-accepted frames (unexpected extras/value, wrong extras length, oversized), each followed by noop/set/get (thorough: all ordered pairs). Oracles: every frame is taken from exactly 24+body bytes by a fresh decoder; decoder outcome and socket responses/final store identical for every segmentation; the unsegmented socket result equals the frame-wise expectation or the connection is closed; answered requests in front of every rejected frame reach the client wherever the stream is cut; a fresh connection opened after every stream gets exactly one noop answered (nothing of a stream reaches another connection). Every frame is also sent on its own (nothing behind it that could complete a short read), and every oversized frame between answered requests and a follower. Pipelines of 24 / 64 / 200 requests in one segment (and cut every 24 / 97 bytes, byte-at-a-time): every loud request answered, the same bytes for every segmentation.",
   note=NET_NOTE),
 "C12": dict(engine="net", cat="model_checking", ref="§4 C12, §2.5",
   technique="exhaustive enumeration of pipelined request streams over all opcodes (depth 2, thorough 3, quit/quitq at every position) on real loopback TCP, validated by the sequential specification",
   text="Every stream of 1-2 (thorough 3) requests over a 48-element alphabet (incl. oversized set/setq, also delivered in three pieces cut inside the body) (every opcode 0x00-0x24 with hit/miss and success/error operands, loud/quiet, unimplemented, undefined) plus every stream with quit/quitq in the middle, sent in one segment and byte-at-a-time; responses are matched by opaque in order: exactly one per loud known opcode, quiet only on error/hit, quit answered then EOF, quitq EOF without answer, nothing after either executed (final store compared), not even on the next connection (a fresh connection after every stream: one noop, exactly one answer). Third delivery mode: one segment followed at once by the client FIN (everything sent is still executed and answered). Late-reader scenarios: pipelined gets of 64-256 KiB then quit or the client's FIN, first read after the server ran: every response whole, then a clean end of stream (no reset). Reset mode: every stream [<a>] quit|quitq <b> on an established connection that the client resets before the server runs (the server reads every byte, its writes and shutdown fail): the store ends as before the stream or as after <a>. Long pipelines: 130 / 300 / 1100 / 70000 (thorough up to 140000) loud noops, and as many quiet sets followed by a get, each ending in quit, in one write: every loud request answered in order, the get sees the last quiet set, quit answered, end of stream.",
   note=NET_NOTE),
 "C13": dict(engine="net", cat="model_checking", ref="§4 C13, §2.5",
   technique="exhaustive grid limit x body length x opcode x pipeline position x bytes-already-buffered x buffer-pregrown on real loopback TCP against an in-process reference",
   text="Full grid (limits 1 KiB..4 MiB, L in {limit-1,limit,limit+1,2*limit,limit+200000}, every opcode, first/middle/last, B in {0,1,L/2-1,L/2,L/2+1,L-1,L,all+next}, receive buffer pre-grown or not): the oversized request is answered 0x03 with opcode/opaque echoed, the store equals a run without it, every other request is answered as in that run, L <= limit is never refused for size (stores at limit-1/limit; every opcode 0..0x24 with a small body delivered whole, header first, or last byte late); header shapes of the oversized request: 3-byte, 251-byte, 65535-byte key, 21 extras bytes. Two clients inside oversized bodies at once: the one that completes is answered while the other pauses. The key named by the oversized request already holds an item (a refused request changes nothing). Limits of 2 and 4 MiB: items of 1 MiB-100 and 2 MiB grown by a 200-byte append / prepend (loud and quiet) are not refused.",
   note=NET_NOTE),
 "C17": dict(engine="net", cat="fault_enumeration", ref="§4 C17, §2.5",
   technique="exhaustive enumeration of connection-lifecycle sequences (13 ending kinds, limits 1..4, length <= limit+2, two ending orders) against the real accept loop/semaphore on loopback TCP with virtual time",
   text="13 ending kinds (client close, quit, quitq, close mid-request, bad magic, oversized item then close, idle timeout, abortive reset, stall inside a request until the timeout, stall inside an oversized body until the timeout, quit then hang up without reading, quit / quitq with the client keeping its socket open), plus queued clients that leave silently and connections reset before they were accepted. After every open/end event exactly min(open, limit) connections are served; after every history limit+1 fresh probes: exactly limit answered, the extra one as soon as a slot frees; accept loop alive (a refused connection is a violation). Plus: clients that queue silently behind a full limit for 0..150 s of virtual time while the holders stay active, then send their first request when a slot frees (must be served, in order). Plus: 2-4 accept loops sharing the one semaphore (as --threads N sets up): while fewer than limit connections are held, 16 fresh connections one after another are each served at once. Plus a crowd: 3*limit+6 and 40 clients (fewer than the listen backlog) connect at once for limits 1, 2, 4; exactly limit are served; each time the oldest served one leaves exactly the next in line is picked up. A connect the kernel does not complete within 1.5 s is reported as the server not accepting connections.",
   note=NET_NOTE),
 "C18": dict(engine="net", cat="fault_enumeration", ref="§4 C18, §2.5",
   technique="exhaustive enumeration of every cut offset of pipelined streams x 7 fault kinds on real loopback TCP with an observer connection, compared with in-process execution of the completed prefix",
   text="Every byte offset 0..len x {close, half-close, reset after the server ran / before it ran / before it even accepted, corrupted magic, silence until the virtual idle timeout}: store content equals executing exactly the completed requests once and in order (after a reset: some prefix), responses complete, observer connection alive and unaffected, fresh connection accepted and served.",
   note=NET_NOTE),
})

CHECKS.update({
 "C10": dict(engine="grid+net+seq", cat="exploration", ref="§4 C10, §2.4",
   technique="exhaustive boundary-grid enumeration of header fields x bytes available x store state through the real decode/handle/encode path under catch_unwind (overflow checks on), a socket sub-grid with virtual-time silence, and explicit-state BFS over the command histories of every sequential alphabet (no panic, every command returns)",
   text="About 0.5 M distinct headers (opcode 0..255 x key/extras/body lengths around every limit x bytes available x CAS extremes x stored value x incr/decr operand extremes, wrong magic/data type): no panic, the decoder makes progress or waits or fails, a header invalid by the property's list is never executed (no success response, store unchanged), buffer capacity stays below limit+24+4096; 19 k of them replayed over real TCP with 61 s of virtual silence: no task panic, connection closed, server still serving; oversized bodies delivered in three pieces with pipelined followers (no panic in the discard loop); oversized bodies streamed in 512-byte reads (buffered bytes stay below limit+24+4096). Second part: every command history of the sequential alphabets (nine properties' plus C16's long repetitions) up to their quick depths (stateful: expired items, CAS, eviction, clock steps) on the real path - no panic, no decode error on a valid request, every command returns (30 s watchdog). Exhaustive over the grid and the histories, not over all byte strings (random bytes are sampling and outside this technique). Third part: every well-formed corpus frame on its own, delivered to the decoder in two pieces at every cut, must be taken exactly as when delivered whole. The check runs in a supervised child process: a death by signal after a panic raised in memcrs/src (abort-on-panic guards, panic while panicking) is reported as VIOLATION with the sequential history as replay file.",
   note="Trusted: the harness profile really has overflow-checks on (profile.dev in mc/Cargo.toml); panic capture via a process-wide hook. " + NET_NOTE),
 "C11": dict(engine="seq+net", cat="model_checking", ref="§4 C11, §2.3",
   technique="explicit-state BFS over histories of every opcode x every outcome on the real code; every encoded response re-parsed by an independent parser",
   text="Socket part: pipelined getk of 0.07-1 MB items, read only after the server blocked on the full socket: every frame whole and in order. Sequential part: 62-command alphabet (every opcode, loud and quiet, hit/miss/exists/not-found/too-large/non-numeric, 250-byte and binary keys, opaques 0/0xabad1dea/0xffffffff/0x80000001), all histories to the bound: every response frame has magic 0x81, opcode and opaque echoed, data type 0, status in the table, body length = extras+key+value, 4 extras on hits, key only for getk, 8 bytes for counters, text on errors; exactly one frame per loud request. The same rules are applied to every response of the C12 socket runs. Requests carry vbucket ids 0 / 7 / 0xffff by command index (a reserved field: nothing may depend on it). Third part: correlation across connections - every stream <request> <quit|quitq|undefined opcode> <request> leaves bytes unconsumed when the server closes; a fresh connection's noop must then receive exactly its own answer. The correlation part also sends <unimplemented or oversized request> <request> (<request>) on one connection: every later request is answered with its own opcode and opaque. The back-pressure scenarios also run with the reader staying away for the idle timeout + 1 s of virtual time while the server is blocked mid-response. Per configuration a history-exhaustive second pass executes every history up to the depth that |alphabet|^d <= 1.5 M (thorough 40 M) allows without state matching (state kept outside the store cannot hide behind equal dumps).",
   note=SEQ_NOTE),
 "C19": dict(engine="seq-pair", cat="model_checking", ref="§4 C19, §2.3",
   technique="explicit-state BFS over pairs of real systems (loud run, toggled run); the loud/quiet toggle is part of the alphabet so every subset of positions is covered; every toggled history up to depth 2 (thorough 3) is also sent as pipelined writes to a real TCP server and compared with the in-process run",
   text="All histories to the bound x every subset of positions switched to quiet: after every command both stores hold identical items (value, flags, expiry) with isomorphic CAS relations; errors identical apart from the opcode, quiet success and quiet get miss silent, quiet hit carries the same payload. TCP part: each clock-free segment of a toggled history is one write (its requests are pipelined in the server's read buffer); received bytes and final store must equal the in-process run of the same history. A second TCP mode sends the requests one at a time with 45 s of virtual idle time in front of each (below the receive timeout). The alphabet contains oversized set / add / replace / append / prepend (their quiet twins through the toggle); the TCP binding adds the tuples <any> <oversized> <any>.",
   note=SEQ_NOTE),
 "C20": dict(engine="cfg", cat="exploration", ref="§4 C20, §2.6",
   technique="exhaustive configuration-grid enumeration: one real memcrsd process (built from /repo, hooks off) per CLI configuration, identical programs, transcript comparison",
   text="Grid runtime-type x threads {1,2,8} x eviction x port x max-item-size x connection-limit (quick: covering subset of 10, thorough: all 144; max-item-size 1KiB / 1MiB / 2MiB): byte-identical transcripts of the C01/C07 spanning-tree programs across configurations and agreement with the in-process run, item-size and connection limits enforced as configured (8 x limit simultaneous connections), a 1500-item population read back and flushed, one real-time TTL probe per configuration (ttl 4: hit at 0 s and 2.3 s, miss at 5.6 s). Second part: in-process differential BFS, eviction policy none vs random with an unreachable limit, every history of the C01 alphabet (incl. rejected CAS stores) to depth 5-6: byte-identical responses and equal stores. Connections ending in quit, quitq and a plain close precede the connection-limit probe. The in-process differential runs over the first alphabets of C01, C02, C06, C07 and C08. Per configuration six rounds of <connection ending with unconsumed bytes: behind quit, behind quitq, a cut-short set> + <fresh connection: get, noop> (nothing of one connection reaches the next, whichever runtime thread sets it up). The item-limit probe also runs pipelined: set, set of limit+1 bytes, set, get, noop in one write - the requests behind the refused one are answered under every configured limit.",
   note="Trusted: timing enters only as patience (5 s for positive, 300 ms for negative expectations); ./run builds the real memcrsd binary from /repo's working tree (verification feature off) into /verif/mc/target/memcrsd and every configuration is that binary with its CLI arguments; `mc serve` (the statements of memcrsd's main) is only the fallback when MEMCRSD_BIN is unset, and the evidence records which one ran."),
})

PENDING = {}

def main():
    props = [json.loads(l) for l in open(os.path.join(HERE, "properties.jsonl"))]
    checks, na = [], []
    for p in props:
        pid = p["id"]
        if pid in CHECKS:
            c = CHECKS[pid]
            checks.append({
                "property_id": pid,
                "quick_cmd": f"./run check {pid} --tier quick",
                "thorough_cmd": f"./run check {pid} --tier thorough",
                "evidence_file": f"/verif/evidence/{pid}.json",
                "replay_cmd_template": "./run replay {path}",
                "engine": c["engine"],
                "level_claimed": {"category": c["cat"], "text": c["text"], "design_ref": c["ref"]},
                "level_note": c["note"],
                "technique": c["technique"],
            })
        else:
            na.append({"property_id": pid, "reason": PENDING.get(pid, "check under construction in this session (engine not yet committed); see DESIGN.md §4 for the planned exhaustive exploration")})
    m = {
        "version": 1,
        "setup_cmd": "cd /verif/mc && CARGO_NET_OFFLINE=true cargo build --offline",
        "hooks": {
            "guard": "cargo feature memcrs_verif (memcrs/Cargo.toml)",
            "enable": "the harness crate /verif/mc depends on memcrs by path /repo/memcrs with features=[\"memcrs_verif\"]; every ./run rebuilds it from /repo's working tree",
            "baseline_off_cmd": "cd /repo && cargo test --workspace --no-fail-fast --offline",
            "source_commits": commits(),
            "add_only": True,
        },
        "engines": [
            {"name": "seq", "path": "/verif/mc/src/seq.rs", "serves_properties": [k for k, v in CHECKS.items() if "seq" in v["engine"]],
             "kind_free_text": "explicit-state BFS over command histories; each transition executes the real code; reference model in lock-step"},
            {"name": "sched", "path": "/verif/mc/src/sched.rs", "serves_properties": [k for k, v in CHECKS.items() if "sched" in v["engine"]],
             "kind_free_text": "stateless preemption-bounded DFS over thread schedules of the real store (shuttle engine + own scheduler + lock-instrumented dashmap)"},
            {"name": "grid", "path": "/verif/mc/src/check_c10.rs", "serves_properties": ["C10"], "kind_free_text": "exhaustive input-shape grid at the decoder+handler, in-process and over a socket"},
            {"name": "cfg", "path": "/verif/mc/src/check_c20.rs", "serves_properties": ["C20"], "kind_free_text": "one server subprocess per CLI configuration, identical client programs, transcript comparison"},
            {"name": "net", "path": "/verif/mc/src/net.rs", "serves_properties": [k for k, v in CHECKS.items() if "net" in v["engine"]],
             "kind_free_text": "deterministic exhaustive scenario enumeration against the real TCP server on a paused current_thread tokio runtime (loopback sockets, virtual time)"},
        ],
        "checks": checks,
        "not_applicable": na,
        "notes": "All checks: ./run check <id> --tier quick|thorough. Exit 0 = held, 1 = VIOLATION line, 2 = machinery failure (never a verdict). Known findings: /verif/known_findings.jsonl.",
    }
    json.dump(m, open(os.path.join(HERE, "MANIFEST.json"), "w"), indent=1)
    print("checks:", len(checks), "not_applicable:", len(na))

main()
